"""./check <ID> [--tier quick|thorough] [--replay file] [--shard i/n]

exit 0: property held on everything explored (KNOWN-FINDING lines possible)
exit 1: VIOLATION property=<id> replay=<path>
exit 2: harness error / inconclusive
"""
import argparse
import importlib
import json
import os
import subprocess
import sys
import time
import traceback

from . import core
from .core import Ctx, Violation, HarnessError

MAX_NEW_SIGNATURES = 3


def load_module(prop):
  try:
    return importlib.import_module('verif.props.%s' % prop.lower())
  except ImportError as e:
    if 'verif.props' in str(e):
      raise HarnessError('no check module for %s' % prop)
    raise


def run_replays(ctx, mod):
  """Regression tier: committed replays for this property run first, through the
  same oracle, without Hypothesis."""
  d = os.path.join(core.VERIF_DIR, 'regress')
  if not os.path.isdir(d):
    return
  for name in sorted(os.listdir(d)):
    if not name.startswith(ctx.prop + '-') or not name.endswith('.json'):
      continue
    doc = json.load(open(os.path.join(d, name)))
    ctx.replaying = True
    try:
      mod.execute(ctx, doc['case'])
    finally:
      ctx.replaying = False
    ctx.replays_run += 1


def search(ctx, mod):
  """Run replays + generated search; collect up to MAX_NEW_SIGNATURES distinct
  violations (each re-run excludes the signatures already found)."""
  found = []
  for attempt in range(MAX_NEW_SIGNATURES):
    try:
      if attempt == 0:
        run_replays(ctx, mod)
      mod.run(ctx)
      break
    except Violation as v:
      found.append(v)
      ctx.temp_excluded.add(v.sig)
      ctx.first_fail = None
      ctx.best_fail_key = None
      ctx.best_outer_key = None
      if ctx.shard is not None:
        break
  return found


def finish(ctx, mod, found, t0, parts=None):
  status = 0
  for sig, msg in sorted(ctx.known_seen.items()):
    print('KNOWN-FINDING: property=%s sig=%s %s' % (ctx.prop, sig, ctx.known.get(sig) or msg))
  for v in found:
    path = core.write_replay(ctx.prop, v, ctx.seed, ctx.tier)
    print('VIOLATION property=%s replay=%s' % (ctx.prop, path))
    print('  signature=%s' % v.sig)
    print('  %s' % v.message[:2000])
    status = 1
  doc = core.build_evidence(ctx, mod, len(found), time.time() - t0)
  doc = core.jsonsafe(doc)
  try:
    core.validate_evidence(doc)
  except Exception as e:
    print('harness error: evidence does not validate: %s' % str(e)[:500])
    core.write_evidence(doc)
    return 2 if status == 0 else status
  core.write_evidence(doc)
  print('%s %s tier=%s seed=%d evaluations=%d distinct_nontrivial=%d wall=%.1fs' % (
    ctx.prop, 'FAIL' if status else 'ok', ctx.tier, ctx.seed, ctx.evaluations,
    len(ctx.nontrivial), time.time() - t0))
  return status


def run_sharded(prop, tier, seed, nshards, mod):
  """Thorough tier: n worker processes, seeds seed*1000+i, merged evidence."""
  t0 = time.time()
  partdir = os.path.join(core.EVIDENCE_DIR, '.parts')
  os.makedirs(partdir, exist_ok=True)
  procs = []
  for i in range(nshards):
    out = os.path.join(partdir, '%s-%d.json' % (prop, i))
    if os.path.exists(out):
      os.unlink(out)
    cmd = [sys.executable, '-m', 'verif.run', prop, '--tier', tier,
           '--shard', '%d/%d' % (i, nshards), '--part', out]
    env = dict(os.environ, VERIF_SEED=str(seed))
    procs.append((i, out, subprocess.Popen(cmd, env=env, cwd=core.VERIF_DIR,
                                           stdout=subprocess.PIPE, stderr=subprocess.STDOUT)))
  ctx = Ctx(prop, tier, seed)
  found = []
  harness_failed = False
  for i, out, p in procs:
    text = p.communicate()[0].decode('utf-8', 'replace')
    if p.returncode not in (0, 1) or not os.path.exists(out):
      harness_failed = True
      print('shard %d: exit %s\n%s' % (i, p.returncode, text[-3000:]))
      continue
    part = json.load(open(out))
    os.unlink(out)
    ctx.evaluations += part['evaluations']
    ctx.nontrivial.update(part['nontrivial'])
    ctx.classes.update(part['classes'])
    ctx.excluded_known.update(part['excluded_known'])
    ctx.known_seen.update(part['known_seen'])
    ctx.replays_run += part['replays_run']
    for k, v in part['extra'].items():
      if isinstance(v, (int, float)) and not isinstance(v, bool) and isinstance(ctx.extra.get(k, 0), (int, float)):
        ctx.extra[k] = ctx.extra.get(k, 0) + v
      else:
        ctx.extra.setdefault(k, v)
    if part['exhaustive'] is not None:
      ctx.exhaustive = part['exhaustive'] if ctx.exhaustive is None else (ctx.exhaustive and part['exhaustive'])
    for s in part['samples']:
      if len(ctx.samples) < ctx.max_samples:
        ctx.samples.append(s)
    for f in part['found']:
      if f['sig'] not in [x.sig for x in found]:
        found.append(Violation(f['sig'], f['message'], f['case'], f.get('subcheck')))
  ctx.extra['shards'] = nshards
  status = finish(ctx, mod, found, t0)
  if harness_failed and status == 0:
    return 2
  return status


def main(argv=None):
  ap = argparse.ArgumentParser()
  ap.add_argument('prop')
  ap.add_argument('--tier', default=os.environ.get('VERIF_TIER') or 'quick', choices=['quick', 'thorough'])
  ap.add_argument('--replay')
  ap.add_argument('--shard')
  ap.add_argument('--part')
  ap.add_argument('--shards', type=int, default=int(os.environ.get('VERIF_SHARDS', '16')))
  args = ap.parse_args(argv)
  prop = args.prop.upper()
  try:
    seed = int(os.environ.get('VERIF_SEED') or '1')
  except ValueError:
    seed = 1
  t0 = time.time()
  # overall wall-clock budget: code under test that blocks in real time (a primitive the harness does not
  # virtualise) must not hang the check - it ends "inconclusive" (exit 2), never as a violation
  budget = int(os.environ.get('VERIF_BUDGET_S') or (1800 if args.tier == 'quick' else 4 * 3600))

  def out_of_time(signum, frame):
    print('harness error: %s %s tier exceeded its wall-clock budget of %d s (inconclusive)' % (prop, args.tier, budget))
    sys.stdout.flush()
    os._exit(2)
  try:
    import signal
    signal.signal(signal.SIGALRM, out_of_time)
    signal.alarm(budget)
  except Exception:  # noqa: no alarm on this platform
    pass
  try:
    mod = load_module(prop)
    if args.replay:
      doc = json.load(open(args.replay))
      ctx = Ctx(prop, args.tier, seed)
      ctx.replaying = True
      try:
        mod.execute(ctx, doc['case'])
      except Violation as v:
        print('VIOLATION property=%s replay=%s' % (prop, args.replay))
        print('  signature=%s' % v.sig)
        print('  %s' % v.message[:2000])
        return 1
      for sig, msg in sorted(ctx.known_seen.items()):
        print('KNOWN-FINDING: property=%s sig=%s %s' % (prop, sig, ctx.known.get(sig) or msg))
      print('%s replay ok (no violation)' % prop)
      return 0
    if args.tier == 'thorough' and args.shard is None and getattr(mod, 'SHARDED', True):
      return run_sharded(prop, args.tier, seed, args.shards, mod)
    if args.shard:
      i, n = args.shard.split('/')
      ctx = Ctx(prop, args.tier, seed, shard=int(i), nshards=int(n))
    else:
      ctx = Ctx(prop, args.tier, seed)
    for sig in ctx.known:
      if sig not in getattr(mod, 'SIGNATURES', ()):
        raise HarnessError('KNOWN_FINDINGS.txt names signature %r that %s does not define' % (sig, prop))
    found = search(ctx, mod)
    if args.part:
      part = {
        'evaluations': ctx.evaluations, 'nontrivial': sorted(ctx.nontrivial),
        'classes': dict(ctx.classes), 'excluded_known': dict(ctx.excluded_known),
        'known_seen': ctx.known_seen, 'replays_run': ctx.replays_run,
        'extra': core.jsonsafe(ctx.extra), 'exhaustive': ctx.exhaustive,
        'samples': core.jsonsafe(ctx.samples),
        'found': [{'sig': v.sig, 'message': v.message, 'case': json.loads(core.canon(v.case)),
                   'subcheck': v.subcheck} for v in found],
      }
      with open(args.part, 'w') as f:
        json.dump(part, f, allow_nan=True)
      return 1 if found else 0
    return finish(ctx, mod, found, t0)
  except HarnessError as e:
    print('harness error: %s' % e)
    return 2
  except SystemExit as e:
    # the code under test called sys.exit() somewhere the check does not judge: never a silent exit status
    traceback.print_exc()
    print('harness error: SystemExit(%r) escaped from the code under test (inconclusive)' % (e.code,))
    return 2
  except Violation:
    raise
  except Exception:
    traceback.print_exc()
    print('harness error: unexpected exception in the check itself')
    return 2


if __name__ == '__main__':
  sys.exit(main())
