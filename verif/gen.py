"""Shared Hypothesis strategies."""
import struct
import sys

from hypothesis import strategies as st

WHITESPACE = ''.join(chr(i) for i in range(sys.maxunicode + 1) if chr(i).isspace())

_ascii_tok = st.text(alphabet='abcdefghijklmnopqrstuvwxyzABCXYZ0123456789', min_size=1, max_size=6)
_sep_tok = st.sampled_from(['.', '.', '.', '_', '-', ':'])
_punct_tok = st.sampled_from([';', '=', '{', '}', '"', "'", '\\', '%', ',', '~', '!', '^', '#', '*', '/',
                              '<', '>', '(', ')', '[', ']', '$', '&', '|', '@', '+', '?'])
_uni_tok = st.one_of(
  st.sampled_from(['é', 'ß', 'ü', 'я', '日本', '✓', '€', '𝔘', '😀', '­', '​', '﻿', '\x7f', '\x01']),
  st.characters(exclude_categories=['Cs'], exclude_characters=WHITESPACE, min_codepoint=0x80),
)


def metric_names(max_tokens=8, unicode_weight=1, punct_weight=1):
  """Whitespace-free names (str.isspace() characters excluded - that is exactly what
  split()/splitlines() treat as separators), incl. reserved punctuation and 2/3/4-byte
  UTF-8 characters."""
  toks = [_ascii_tok, _ascii_tok, _sep_tok]
  toks += [_punct_tok] * punct_weight
  toks += [_uni_tok] * unicode_weight
  return st.lists(st.one_of(*toks), min_size=1, max_size=max_tokens).map(''.join)


def plain_names():
  return st.lists(_ascii_tok, min_size=1, max_size=4).map('.'.join)


def raw_doubles(allow_nan=False, allow_inf=True):
  """Doubles from random 64-bit patterns (covers denormals, huge, tiny)."""
  def conv(bits):
    return struct.unpack('>d', struct.pack('>Q', bits))[0]
  s = st.integers(0, 2**64 - 1).map(conv)
  if not allow_nan:
    s = s.filter(lambda x: x == x)
  if not allow_inf:
    s = s.filter(lambda x: x not in (float('inf'), float('-inf')))
  return s


_digits = st.text(alphabet='0123456789', min_size=1, max_size=12)


@st.composite
def value_texts(draw):
  """Any spelling float() accepts for a non-NaN number."""
  kind = draw(st.integers(0, 9))
  if kind == 0:
    return draw(st.sampled_from(['inf', '-inf', '+inf', 'Infinity', '-Infinity', 'INF', '-iNf']))
  if kind == 1:
    return repr(draw(raw_doubles()))
  if kind == 2:
    return '%.17g' % draw(raw_doubles(allow_inf=False))
  if kind == 3:
    n = draw(st.integers(-2**64, 2**64))
    fmt = draw(st.sampled_from(['%d', '%d.0', '%d.'] + (['+%d'] if n >= 0 else [])))
    return fmt % n
  if kind == 4:
    return draw(st.sampled_from(['', '-', '+'])) + draw(st.sampled_from(['', '0', '000'])) + draw(_digits)
  if kind == 5:
    x = draw(st.floats(-1e9, 1e9, allow_nan=False))
    return draw(st.sampled_from(['%f', '%.3f', '%e', '%.17e', '%E', '%g'])) % x
  if kind == 6:
    return '%s%s.%s' % (draw(st.sampled_from(['', '-'])), draw(_digits), draw(_digits))
  if kind == 7:
    return '%s%se%s%d' % (draw(st.sampled_from(['', '-'])), draw(_digits),
                          draw(st.sampled_from(['', '-', '+'])), draw(st.integers(0, 330)))
  if kind == 8:
    return '.%s' % draw(_digits)
  return repr(draw(st.floats(allow_nan=False, width=32)))


@st.composite
def timestamp_texts(draw):
  """Spellings of a finite timestamp >= 0."""
  kind = draw(st.integers(0, 5))
  if kind == 0:
    return '%d' % draw(st.integers(0, 2**33))
  if kind == 1:
    return '%d' % draw(st.sampled_from([0, 1, 59, 60, 1500000000, 2**31 - 1, 2**31, 2**32 - 1, 2**32]))
  if kind == 2:
    return repr(draw(st.floats(0, 2.0**34, allow_nan=False)))
  if kind == 3:
    return '%d.%s' % (draw(st.integers(0, 2**32)), draw(_digits))
  if kind == 4:
    return '%d.%de%d' % (draw(st.integers(1, 9)), draw(st.integers(0, 99999)), draw(st.integers(0, 9)))
  return '+%d' % draw(st.integers(0, 2**33))


def cut_sets(max_len=400):
  return st.lists(st.integers(1, max_len), max_size=12)
