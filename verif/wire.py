"""Listener harness: protocols are built the way Twisted builds them, bytes go in
through dataReceived()/datagramReceived() in generated segments, and a recorder on
events.metricReceived observes what reaches the pipeline."""
import fractions

from twisted.internet.testing import StringTransport

from . import env
from .core import HarnessError


def segments(data, cuts):
  """Split data at the given cut offsets (sorted, deduplicated, inside (0, len))."""
  pts = sorted(set(c for c in cuts if 0 < c < len(data)))
  out = []
  prev = 0
  for c in pts:
    out.append(data[prev:c])
    prev = c
  out.append(data[prev:])
  return out


def dec_number(text):
  """Independent decimal-text -> double decoder (exact rational, correctly rounded)."""
  t = text.strip()
  low = t.lower().lstrip('+-')
  if low in ('inf', 'infinity'):
    return float('-inf') if t.startswith('-') else float('inf')
  fr = fractions.Fraction(t)
  try:
    return fr.numerator / fr.denominator
  except OverflowError:
    return float('-inf') if fr < 0 else float('inf')


class Listener(object):
  """One connection (or UDP socket) of a carbon listener."""

  def __init__(self, kind, clock=None, tolerate_connect_failure=False):
    b = env.bootstrap()
    self.kind = kind
    self.clock = clock
    P = b.protocols
    cls = {'line': 'MetricLineReceiver', 'udp': 'MetricDatagramReceiver',
           'pickle': 'MetricPickleReceiver', 'query': 'CacheManagementHandler'}[kind]
    self.proto = env.need(P, cls)()
    self.transport = StringTransport()
    self.escaped = []      # exceptions that propagated out of the protocol entry point
    if clock is not None:
      # timers of the protocol (TimeoutMixin: the idle timeout) run on the harness's virtual clock
      self.proto.callLater = clock.callLater
    self.connect_exc = None
    if kind == 'udp':
      self.proto.transport = None
    elif tolerate_connect_failure:
      # Twisted's tcp.Port logs an exception out of connectionMade and leaves the connection open and reading
      try:
        self.proto.makeConnection(self.transport)
      except Exception as e:  # noqa
        self.connect_exc = e
    else:
      self.proto.makeConnection(self.transport)

  def feed(self, data, cuts=()):
    for seg in segments(data, cuts):
      if self.transport.disconnecting:
        # Twisted stops delivering after loseConnection(); model that.
        break
      try:
        self.proto.dataReceived(seg)
      except Exception as e:  # noqa: the oracle decides what this means
        self.escaped.append(e)
        # Twisted's reactor would log the failure and drop the connection.
        return False
    return True

  def datagram(self, data, addr=('10.0.0.1', 4242)):
    try:
      self.proto.datagramReceived(data, addr)
    except Exception as e:
      self.escaped.append(e)
      return False
    return True

  def close(self):
    from twisted.internet.error import ConnectionDone
    from twisted.python.failure import Failure
    if self.kind != 'udp':
      try:
        self.proto.connectionLost(Failure(ConnectionDone()))
      except Exception:
        pass


def same_double(a, b):
  if isinstance(a, bool) or isinstance(b, bool):
    return False
  try:
    return float(a) == float(b)
  except Exception:
    return False
