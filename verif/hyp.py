"""Hypothesis driver: every run is a pure function of (sources, VERIF_SEED, tier)."""
from hypothesis import given, settings, seed, HealthCheck, Phase, Verbosity


def run_given(ctx, strategy, fn, max_examples, salt=0):
  @seed(ctx.shard_seed() * 7919 + salt)
  @settings(max_examples=max_examples, database=None, deadline=None,
            report_multiple_bugs=False, derandomize=False,
            suppress_health_check=list(HealthCheck),
            phases=[Phase.generate, Phase.shrink],
            verbosity=Verbosity.quiet, print_blob=False)
  @given(strategy)
  def t(case):
    fn(ctx, case)
  t()
