"""Hypothesis driver: every run is a pure function of (sources, VERIF_SEED, tier)."""
from hypothesis import given, settings, seed, HealthCheck, Phase, Verbosity

from .core import Violation, hash_case


def _find_violation(e, depth=0):
  if isinstance(e, Violation):
    return e
  if depth > 6 or e is None:
    return None
  for sub in getattr(e, 'exceptions', ()) or ():
    v = _find_violation(sub, depth + 1)
    if v is not None:
      return v
  for attr in ('__cause__', '__context__'):
    v = _find_violation(getattr(e, attr, None), depth + 1)
    if v is not None:
      return v
  return None


def run_given(ctx, strategy, fn, max_examples, salt=0):
  @seed(ctx.shard_seed() * 7919 + salt)
  @settings(max_examples=max_examples, database=None, deadline=None,
            report_multiple_bugs=False, derandomize=False,
            suppress_health_check=list(HealthCheck),
            phases=[Phase.generate, Phase.shrink],
            verbosity=Verbosity.quiet, print_blob=False)
  @given(strategy)
  def t(case):
    key = hash_case(case)
    if ctx.skip_candidate(key):
      return
    ctx.current_outer_key = key
    fn(ctx, case)
  try:
    t()
  except Violation:
    raise
  except BaseException as e:  # noqa
    # When the shrink budget runs out the driver lets further shrink candidates pass, which
    # Hypothesis may report as a flaky failure (an exception group wrapping the Violation):
    # the violation itself is what counts.
    v = _find_violation(e)
    if v is not None:
      raise v
    raise
