"""Reference implementation of the published carbon_ch / fnv1a_ch consistent-hash ring,
written from its description (slow, obviously correct, shares no code with carbon).

  * a node is a (server, instance) pair; it is placed on a ring of 16-bit positions at 100
    replica keys:  carbon_ch: "('server', 'instance'):<i>"   (python repr of the pair)
                   fnv1a_ch:  "<i>-<instance>"
  * position(key) = first 4 hex digits of md5(key)            (carbon_ch)
                  = (h >> 16) xor (h & 0xffff), h = FNV-1a-32 (fnv1a_ch)
  * an occupied position is bumped by +1 until free, in insertion order
  * lookup: first ring entry at or after position(key), wrapping; the preference list of a key
    is the order in which distinct nodes are met walking the ring from there, stopping just
    before the walk would return to the entry preceding the start.
"""
import hashlib

REPLICAS = 100


def fnv1a32(data):
  h = 0x811c9dc5
  for byte in data:
    h ^= byte
    h = (h * 0x01000193) & 0xffffffff
  return h


def position(key, hash_type):
  raw = key.encode('utf-8')
  if hash_type == 'fnv1a_ch':
    h = fnv1a32(raw)
    return (h >> 16) ^ (h & 0xffff)
  return int(hashlib.md5(raw).hexdigest()[:4], 16)


def node_repr(node):
  server, instance = node
  def q(s):
    return 'None' if s is None else repr(s)
  return '(%s, %s)' % (q(server), q(instance))


def replica_key(node, i, hash_type):
  if hash_type == 'fnv1a_ch':
    return '%d-%s' % (i, node[1])
  return '%s:%d' % (node_repr(node), i)


class RefRing(object):
  def __init__(self, hash_type='carbon_ch'):
    self.hash_type = hash_type
    self.entries = {}       # position -> node
    self.nodes = []         # in insertion order
    self.bumped = {}        # position actually used -> original position (only when bumped)

  def add(self, node):
    if node not in self.nodes:
      self.nodes.append(node)
    for i in range(REPLICAS):
      p0 = position(replica_key(node, i, self.hash_type), self.hash_type)
      p = p0
      while p in self.entries:
        p += 1
      self.entries[p] = node
      if p != p0:
        self.bumped[p] = p0

  def remove(self, node):
    if node in self.nodes:
      self.nodes.remove(node)
    for p in [p for p, n in self.entries.items() if n == node]:
      del self.entries[p]
      self.bumped.pop(p, None)

  def ordered(self):
    return sorted(self.entries.items())

  def preference(self, key):
    """Full preference list of nodes for a routing key."""
    return self.preference_at(position(key, self.hash_type))

  def preference_at(self, pos, ring=None):
    ring = ring if ring is not None else self.ordered()
    if not ring:
      return []
    n = len(ring)
    start = None
    for idx, (p, node) in enumerate(ring):
      if p >= pos:
        start = idx
        break
    if start is None:
      start = 0
    out = []
    want = len(set(node for _, node in ring))
    idx = start
    last = (start - 1) % n
    while len(out) < want and idx != last:
      node = ring[idx][1]
      if node not in out:
        out.append(node)
      idx = (idx + 1) % n
    return out

  def collision_free(self):
    """True if no replica position of the live nodes collides with another (so placement cannot
    depend on join order)."""
    seen = {}
    for node in self.nodes:
      for i in range(REPLICAS):
        p = position(replica_key(node, i, self.hash_type), self.hash_type)
        if p in seen:
          return False
        seen[p] = node
    return True


_key_tables = {}


def keys_for_all_positions(hash_type):
  """table[p] = a metric name whose ring position is p, for all 65536 positions (brute force,
  through this module's own hash; carbon's hash is checked against it by the properties)."""
  if hash_type in _key_tables:
    return _key_tables[hash_type]
  table = [None] * 65536
  missing = 65536
  i = 0
  while missing:
    k = 'm.%d' % i
    p = position(k, hash_type)
    if table[p] is None:
      table[p] = k
      missing -= 1
    i += 1
    if i > 5000000:
      raise RuntimeError('could not cover all ring positions')
  _key_tables[hash_type] = table
  return table


def selfcheck():
  """Literal vectors published with carbon (lib/carbon/tests/test_hashing.py)."""
  vec = {'hosts.worker1.cpu': 59573, 'hosts.worker1.load': 57163, 'hosts.worker2.cpu': 35749,
         'hosts.worker2.network': 43584, 'hosts.worker3.cpu': 12600, 'hosts.worker3.irq': 10052}
  for k, v in vec.items():
    assert position(k, 'fnv1a_ch') == v, k
  hosts = [("127.0.0.1", "ba603c36342304ed77953f84ac4d357b"), ("127.0.0.2", "5dd63865534f84899c6e5594dba6749a"),
           ("127.0.0.3", "866a18b81f2dc4649517a1df13e26f28")]
  r = RefRing('fnv1a_ch')
  for h in hosts:
    r.add(h)
  assert r.preference('hosts.worker1.cpu')[0] == hosts[0]
  assert r.preference('hosts.worker2.cpu')[0] == hosts[2]
  assert r.preference('stats.checkout.cluster.padamski-wro.api.v1.payment-initialize.count')[0] == hosts[2]
  assert replica_key(('a', None), 3, 'carbon_ch') == "('a', None):3"
  assert replica_key(('a', "b'c"), 3, 'carbon_ch') == '%s:%d' % (('a', "b'c"), 3)
  return True
