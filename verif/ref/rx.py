"""Restricted regular-expression grammar with a matcher that does not use `re`, so that
oracles for carbon's regex-driven configuration (white/blacklist, relay rules, storage
schemas) are not "re versus re".  All patterns are applied with *search* semantics.

pattern = {'kind': ..., 'a': str, 'b': str, 'text': regex source}
"""
from hypothesis import strategies as st

LIT_ALPHABET = 'abcdefghijklmnopqrstuvwxyz0123456789_-'


def esc(lit):
  return lit.replace('.', r'\.')


def make(kind, a, b=''):
  if kind == 'lit':
    text = esc(a)
  elif kind == 'prefix':
    text = '^' + esc(a)
  elif kind == 'suffix':
    text = esc(a) + '$'
  elif kind == 'exact':
    text = '^' + esc(a) + '$'
  elif kind == 'dotstar':
    text = esc(a) + '.*' + esc(b)
  elif kind == 'segment':
    text = '^' + esc(a) + r'\.[^.]+\.' + esc(b) + '$'
  elif kind == 'alt':
    # a leading ^ that anchors only the first alternative, a trailing $ that anchors only the second
    text = '^' + esc(a) + '|' + esc(b) + '$'
  elif kind == 'anything':
    text = '.*'
  else:
    raise ValueError(kind)
  return {'kind': kind, 'a': a, 'b': b, 'text': text}


def matches(p, name, ignore_case=False):
  """search semantics, implemented with string operations only."""
  a, b = p['a'], p['b']
  if ignore_case:
    name, a, b = name.lower(), a.lower(), b.lower()
  k = p['kind']
  if k == 'lit':
    return a in name
  if k == 'prefix':
    return name.startswith(a)
  if k == 'suffix':
    return name.endswith(a)
  if k == 'exact':
    return name == a
  if k == 'dotstar':
    # '.' does not match a newline; names never contain one
    i = name.find(a)
    return i >= 0 and name.find(b, i + len(a)) >= 0
  if k == 'segment':
    if not (name.startswith(a + '.') and name.endswith('.' + b)):
      return False
    mid = name[len(a) + 1:len(name) - len(b) - 1]
    return len(name) >= len(a) + len(b) + 3 and mid != '' and '.' not in mid
  if k == 'alt':
    return name.startswith(a) or name.endswith(b)
  if k == 'anything':
    return True
  raise ValueError(k)


_seg = st.text(alphabet='abcxyz019_-', min_size=1, max_size=4)
_words = st.sampled_from(['carbon', 'servers', 'web', 'db', 'cpu', 'load', 'prod', 'test', 'a', 'b', 'x1', 'count'])


def literals():
  """dotted literals built from a small vocabulary so that names hit them often."""
  return st.lists(st.one_of(_words, _words, _seg), min_size=1, max_size=3).map('.'.join)


@st.composite
def patterns(draw):
  kind = draw(st.sampled_from(['lit', 'lit', 'prefix', 'prefix', 'suffix', 'exact', 'dotstar', 'segment', 'anything', 'alt']))
  a = draw(literals())
  b = draw(literals()) if kind in ('dotstar', 'segment', 'alt') else ''
  if kind == 'lit' and draw(st.integers(0, 5)) == 0:
    a = draw(st.sampled_from(['.', '..', '.a', 'a.']))
  return make(kind, a, b)


def names_for(pats):
  """Names that hit and miss the given patterns (and near misses)."""
  pool = []
  for p in pats:
    a, b = p['a'], p['b']
    k = p['kind']
    if k in ('lit', 'prefix', 'suffix', 'exact'):
      pool += [a, a + '.tail', 'head.' + a, 'head.' + a + '.tail', a[:-1] or 'q', a.upper(), a.replace('.', '_')]
    elif k == 'alt':
      pool += [a, a + '.tail', 'head.' + b, 'head.' + a, b + '.tail', b, 'x.' + a + '.' + b, a[:-1] or 'q']
    elif k == 'dotstar':
      pool += [a + b, a + '.mid.' + b, b + '.x.' + a, a, 'pre.' + a + 'zz' + b + '.post']
    elif k == 'segment':
      pool += [a + '.one.' + b, a + '.one.two.' + b, a + '..' + b, a + '.' + b, 'x' + a + '.one.' + b, a + '.one.' + b + 'x']
  pool += ['carbon.agents.host.cpu', 'servers.web.cpu', 'a', 'zzz', 'servers.db.load', 'x..y', '.lead', 'trail.',
           'servers.db.db.queries', 'web.web', 'cpu11.load', 'x.prod.prod', 'b.count', 'a.b', 'db.web']
  base = st.sampled_from(pool)
  return st.one_of(base, base, literals())


# unrestricted regexes (compared through `re`: only list/ordering semantics are under test)
FREE_POOL = [r'(?:^|\.)([^.]+)\.\1(?:\.|$)', r'(\d)\1', r'^(a|x)?(?(1)\.|b)', r'(?P<w>web|db)\.(?P=w)', r'^carbon\.', r'cpu$', r'\d+', r'(web|db)\.', r'[aeiou]{2}', r'^[^.]+$', r'\.\.', r'^\.', r'\.$',
             r'(?i)CPU', r'a.c', r'^servers\.[^.]*\.load$', r'x?y+', r'\bprod\b', r'^$', r'.',
             # rule texts whose ends look like a redundant '.*' but are not
             r'^carbon\.*', r'db\.\.*', r'.*?\.prod\.', r'.*+\.count$', r'^web.*?', r'(?:a|b).*', r'.*', r'^.*$', r'cpu.*\Z',
             r'\..*\.', r'[.]*$', r'.{3}',
             # a leading ^ that anchors only the first alternative
             r'^carbon\.|\.count$', r'^web|load$', r'^db\.|^servers\.|cpu', r'(^a\.)|b$']
INVALID_POOL = ['(', '[a', '*a', 'a**', '(?P<x', '\\', '(?z)', 'a{2,1}', '[z-a]', ')']
