"""Matcher for the documented aggregation-rule pattern language, independent of `re`.

  input pattern = dot separated parts; a part is
     *            one non-empty dot-free segment
     lit*lit      literal text with embedded *, each * = zero or more non-dot characters
     pre<f>post   field f = one or more non-dot characters (confined to the segment)
     pre<<f>>post field f = one or more characters, may span dots
     literal
  The whole metric name has to match.  match() returns ALL valid bindings (list of dicts).
  output template: <f> is replaced by the bound value.
"""
from hypothesis import strategies as st


def tokenize(pattern):
  toks = []
  parts = pattern.split('.')
  for n, part in enumerate(parts):
    if n:
      toks.append(('lit', '.'))
    if '<<' in part and '>>' in part:
      i, j = part.find('<<'), part.find('>>')
      pre, post, name = part[:i], part[j + 2:], part[i + 2:j]
      if pre:
        toks.append(('lit', pre))
      toks.append(('multi', name))
      if post:
        toks.append(('lit', post))
    elif part.find('<') > -1 and part.find('>') > part.find('<'):
      i, j = part.find('<'), part.find('>')
      pre, post, name = part[:i], part[j + 1:], part[i + 1:j]
      if pre:
        toks.append(('lit', pre))
      toks.append(('single', name))
      if post:
        toks.append(('lit', post))
    elif part == '*':
      toks.append(('seg', None))
    else:
      pieces = part.split('*')
      for k, piece in enumerate(pieces):
        if k:
          toks.append(('star', None))
        if piece:
          toks.append(('lit', piece))
  return toks


def match(pattern, name):
  toks = tokenize(pattern)
  out = []

  def rec(ti, pos, binding):
    if ti == len(toks):
      if pos == len(name):
        out.append(dict(binding))
      return
    kind, arg = toks[ti]
    if kind == 'lit':
      if name.startswith(arg, pos):
        rec(ti + 1, pos + len(arg), binding)
      return
    if kind in ('seg', 'single'):
      end = pos
      while end < len(name) and name[end] != '.':
        end += 1
        if kind == 'single':
          binding[arg] = name[pos:end]
          rec(ti + 1, end, binding)
          del binding[arg]
        else:
          rec(ti + 1, end, binding)
      return
    if kind == 'star':
      end = pos
      rec(ti + 1, end, binding)
      while end < len(name) and name[end] != '.':
        end += 1
        rec(ti + 1, end, binding)
      return
    if kind == 'multi':
      for end in range(pos + 1, len(name) + 1):
        binding[arg] = name[pos:end]
        rec(ti + 1, end, binding)
        del binding[arg]
      return
    raise ValueError(kind)
  rec(0, 0, {})
  uniq = []
  for b in out:
    if b not in uniq:
      uniq.append(b)
  return uniq


def instantiate(template, binding):
  out = template
  for k, v in binding.items():
    out = out.replace('<%s>' % k, v)
  return out


def aggregates(rule, name):
  """All aggregate names the rule may derive for name (one per valid binding)."""
  res = []
  for b in match(rule['input'], name):
    a = instantiate(rule['output'], b)
    if a not in res:
      res.append(a)
  return res


# ---- generation -----------------------------------------------------------------
WORDS = ['prod', 'test', 'apps', 'web', 'db', 'www01', 'www02', 'requests', 'latency', 'cpu', 'all', 'a', 'b-1', 'x_y']
FIELDS = ['env', 'app', 'host', 'metric', 'f1', 'f2']
METHODS = ['sum', 'avg', 'min', 'max', 'p50', 'p75', 'p80', 'p90', 'p95', 'p99', 'p999', 'count']


@st.composite
def rules(draw, idx=0, frequencies=(1, 5, 10, 60)):
  nparts = draw(st.integers(1, 5))
  parts = []
  fields = []
  avail = list(FIELDS)
  for _ in range(nparts):
    k = draw(st.integers(0, 9))
    if k <= 3:
      parts.append(draw(st.sampled_from(WORDS)))
    elif k == 4:
      parts.append('*')
    elif k == 5:
      w = draw(st.sampled_from(['www', 'web', 'req', 'a']))
      parts.append(draw(st.sampled_from([w + '*', '*' + w, w + '*' + draw(st.sampled_from(['1', 's', 'x']))])))
    elif k <= 8 and avail:
      f = avail.pop(draw(st.integers(0, len(avail) - 1)))
      fields.append(f)
      pre = draw(st.sampled_from(['', '', '', 'www', 'p-']))
      post = draw(st.sampled_from(['', '', '', '01', '_x']))
      parts.append('%s<%s>%s' % (pre, f, post))
    elif avail:
      f = avail.pop(draw(st.integers(0, len(avail) - 1)))
      fields.append(f)
      parts.append('<<%s>>' % f)
    else:
      parts.append(draw(st.sampled_from(WORDS)))
  out_parts = ['agg%d' % idx]
  for f in fields:
    if draw(st.integers(0, 3)):
      out_parts.append('<%s>' % f)
  for _ in range(draw(st.integers(0, 2))):
    out_parts.insert(draw(st.integers(1, len(out_parts))), draw(st.sampled_from(WORDS)))
  return {'input': '.'.join(parts), 'output': '.'.join(out_parts), 'method': draw(st.sampled_from(METHODS)),
          'frequency': draw(st.sampled_from(list(frequencies))), 'fields': fields}


def render(rule, style=0):
  if style == 1:
    return '%s  (%d)  =  %s   %s' % (rule['output'], rule['frequency'], rule['method'], rule['input'])
  return '%s (%d) = %s %s' % (rule['output'], rule['frequency'], rule['method'], rule['input'])


def names_for(rule_list):
  """Names that hit and miss the patterns: literal instantiations, extra/fewer segments,
  empty segments, the aggregate's own name."""
  @st.composite
  def one(draw):
    if not rule_list or draw(st.integers(0, 6)) == 0:
      return '.'.join(draw(st.lists(st.sampled_from(WORDS), min_size=1, max_size=5)))
    r = draw(st.sampled_from(rule_list))
    segs = []
    for part in r['input'].split('.'):
      if '<<' in part:
        i, j = part.find('<<'), part.find('>>')
        segs.append(part[:i] + '.'.join(draw(st.lists(st.sampled_from(WORDS), min_size=1, max_size=3))) + part[j + 2:])
      elif '<' in part:
        i, j = part.find('<'), part.find('>')
        segs.append(part[:i] + draw(st.sampled_from(WORDS + ['', 'x.y'])) + part[j + 1:])
      elif part == '*':
        segs.append(draw(st.sampled_from(WORDS + ['', 'p.q'])))
      else:
        segs.append(part.replace('*', draw(st.sampled_from(['', '0', 'zz', 'a.b']))))
    k = draw(st.integers(0, 11))
    if k == 0:
      segs.append(draw(st.sampled_from(WORDS)))
    elif k == 1 and len(segs) > 1:
      segs.pop(draw(st.integers(0, len(segs) - 1)))
    elif k == 2:
      segs.insert(0, draw(st.sampled_from(WORDS)))
    elif k == 3:
      return 'x' + '.'.join(segs)
    elif k == 4:
      return '.'.join(segs) + 'x'
    name = '.'.join(segs)
    if k == 5:
      aggs = aggregates(r, name)
      if aggs:
        return aggs[0]
    return name
  return one()
