"""Deterministic cooperative scheduler (DESIGN.md 2.3).

Logical threads are real threading.Threads, but exactly one runs at a time.  Control
can change hands only at *preemption points*: every source line executed in one of the
traced carbon files (sys.settrace 'line' events), every acquire/release of a
scheduler-aware lock and every virtual sleep.  The schedule is data:
  switches = [[step, choice], ...]   "at preemption point number <step> hand control to
                                      the <choice>-th other runnable thread"
so it can be generated, enumerated (bounded preemptions), shrunk and replayed exactly.
Time is virtual: it advances only when every live thread sleeps.
"""
import os
import sys
import threading

from .core import HarnessError


class _Abort(BaseException):
  pass


class LThread(object):
  def __init__(self, idx, name, fn):
    self.idx = idx
    self.name = name
    self.fn = fn
    self.sem = threading.Semaphore(0)
    self.done = False
    self.exc = None
    self.wake = None
    self.blocked_on = None
    self.in_op = False
    self.thread = None

  def runnable(self, sched):
    if self.done:
      return False
    ev = getattr(self, 'wait_ev', None)
    if ev is not None:
      # waiting on a SchedEvent: runnable once it is set or the timeout (if any) has passed
      if ev.flag:
        return True
      return self.wake is not None and self.wake <= sched.now
    if self.wake is not None and self.wake > sched.now:
      return False
    if self.blocked_on is not None and self.blocked_on.owner is not None:
      return False
    return True


class SchedLock(object):
  """Same interface as threading.Lock; a blocked acquirer is descheduled."""
  def __init__(self, sched):
    self.sched = sched
    self.owner = None

  def acquire(self, blocking=True, timeout=-1):
    s = self.sched
    me = s.current
    if me is None or s.finished:      # used outside a scheduled run (set-up / final reads)
      self.owner = 'main'
      return True
    s.point('acquire')
    while self.owner is not None:
      if not blocking:
        return False
      me.blocked_on = self
      s.block(me)
    me.blocked_on = None
    self.owner = me
    return True

  def release(self):
    s = self.sched
    self.owner = None
    if s.current is not None and not s.finished:
      s.point('release')

  def locked(self):
    return self.owner is not None

  __enter__ = acquire

  def __exit__(self, *a):
    self.release()


class SchedEvent(object):
  """Same interface as threading.Event; a waiter is descheduled, its timeout runs on the virtual clock."""
  def __init__(self, sched, flag=False):
    self.sched = sched
    self.flag = bool(flag)

  def is_set(self):
    return self.flag

  isSet = is_set

  def set(self):
    self.flag = True
    s = self.sched
    if s.current is not None and not s.finished:
      s.point('event-set')

  def clear(self):
    self.flag = False

  def wait(self, timeout=None):
    s = self.sched
    me = s.current
    if me is None or s.finished:
      if not self.flag and timeout:
        s.now += max(0.0, timeout)
      return self.flag
    s.steps += 1
    if self.flag:
      s.point('event-wait')
      return True
    if timeout is not None and timeout <= 0:
      s.point('event-wait')
      return self.flag
    me.wait_ev = self
    me.wake = None if timeout is None else s.now + timeout
    try:
      s.block(me)
    finally:
      me.wait_ev = None
      me.wake = None
    return self.flag


class SchedRLock(SchedLock):
  def __init__(self, sched):
    SchedLock.__init__(self, sched)
    self.depth = 0

  def acquire(self, blocking=True, timeout=-1):
    me = self.sched.current
    if me is not None and self.owner is me:
      self.depth += 1
      return True
    ok = SchedLock.acquire(self, blocking, timeout)
    if ok:
      self.depth = 1
    return ok

  def release(self):
    self.depth -= 1
    if self.depth <= 0:
      self.depth = 0
      SchedLock.release(self)

  __enter__ = acquire

  def __exit__(self, *a):
    self.release()


class FakeThreading(object):
  """Stands in for the `threading` module inside carbon modules: the primitives that can block are the
  scheduler's, everything else is the real module's."""
  def __init__(self, sched):
    self._s = sched

  def Event(self):
    return SchedEvent(self._s)

  def Lock(self):
    return SchedLock(self._s)

  def RLock(self):
    return SchedRLock(self._s)

  def __getattr__(self, name):
    return getattr(threading, name)


_REAL_LOCK = type(threading.Lock())
_REAL_RLOCK = type(threading.RLock())


def install_threading_shim(sched, modules):
  """A change to the code under test may introduce blocking primitives of its own (an Event to wake the writer,
  another lock): inside the given modules `threading` and module-level Event/Lock objects are replaced by
  scheduler-aware ones for the duration of a run, so that such code is scheduled (and judged) instead of blocking
  the harness in real time.  Returns the function that undoes it."""
  undo = []
  fake = FakeThreading(sched)
  for mod in modules:
    for name, val in list(vars(mod).items()):
      new = None
      if val is threading:
        new = fake
      elif isinstance(val, threading.Event):
        new = SchedEvent(sched, val.is_set())
      elif type(val) is _REAL_LOCK and not val.locked():
        new = SchedLock(sched)
      elif type(val) is _REAL_RLOCK:
        new = SchedRLock(sched)
      elif name in ('Event', 'Lock', 'RLock') and val is getattr(threading, name):
        new = getattr(fake, name)
      if new is not None:
        undo.append((mod, name, val))
        setattr(mod, name, new)

  def restore():
    for mod, name, val in undo:
      setattr(mod, name, val)
  return restore


class FakeTime(object):
  """Stands in for the `time` module inside carbon modules."""
  def __init__(self, sched):
    self._s = sched

  def time(self):
    return self._s.now

  def sleep(self, dt):
    self._s.sleep(dt)


class Sched(object):
  def __init__(self, switches=(), trace_files=(), max_steps=60000, start=0.0, opcode_files=()):
    self.switch_at = {}
    for step, choice in switches:
      self.switch_at[int(step)] = int(choice)
    self.trace_files = set(os.path.abspath(f) for f in trace_files)
    # files in which every bytecode instruction (not only every line) is a scheduling point: read-modify-write
    # statements such as `self.size -= len(x)` can then be torn apart, as the interpreter may do after the call
    self.opcode_files = set(os.path.abspath(f) for f in opcode_files)
    self.max_steps = max_steps
    self.now = float(start)
    self.threads = []
    self.current = None
    self.steps = 0
    self.clock = 0            # logical event counter for invocation/response stamps
    self.aborted = None
    self.finished = False
    self.main_sem = threading.Semaphore(0)
    self.switch_log = []      # (step, from, to, forced, from_in_op)
    self.on_point = None
    self.time = FakeTime(self)

  # -- construction -------------------------------------------------------------
  def spawn(self, name, fn):
    t = LThread(len(self.threads), name, fn)
    self.threads.append(t)
    return t

  def make_lock(self, like=None):
    """a scheduler-aware lock; re-entrant if the lock it stands in for is"""
    if like is not None and type(like) is _REAL_RLOCK:
      return SchedRLock(self)
    return SchedLock(self)

  def tick(self):
    self.clock += 1
    return self.clock

  # -- tracing ------------------------------------------------------------------
  def _global_trace(self, frame, event, arg):
    fn = frame.f_code.co_filename
    if fn in self.opcode_files:
      frame.f_trace_opcodes = True
      return self._opcode_trace
    if fn in self.trace_files:
      return self._local_trace
    return None

  def _local_trace(self, frame, event, arg):
    if event == 'line':
      self.point('line')
    return self._local_trace

  def _opcode_trace(self, frame, event, arg):
    if event == 'opcode':
      self.point('opcode')
    return self._opcode_trace

  # -- running ------------------------------------------------------------------
  def run(self, first=0):
    for t in self.threads:
      t.thread = threading.Thread(target=self._body, args=(t,), name='sched-' + t.name, daemon=True)
      t.thread.start()
    if not self.threads:
      return
    self.current = self.threads[first % len(self.threads)]
    self.current.sem.release()
    self.main_sem.acquire()
    self.finished = True
    self.current = None
    for t in self.threads:
      t.thread.join(10)
      if t.thread.is_alive():
        raise HarnessError('scheduler: thread %s did not stop' % t.name)

  def _body(self, t):
    t.sem.acquire()
    try:
      if self.aborted:
        return
      sys.settrace(self._global_trace)
      try:
        t.fn()
      except _Abort:
        pass
      except BaseException as e:  # noqa: reported by the harness
        t.exc = e
      finally:
        sys.settrace(None)
    finally:
      t.done = True
      self._exit(t)

  def _exit(self, t):
    if self.aborted:
      if all(x.done for x in self.threads):
        self.main_sem.release()
      return
    nxt = self._pick_next(t)
    if nxt is not None:
      self.current = nxt
      nxt.sem.release()
    elif all(x.done for x in self.threads):
      self.main_sem.release()
    else:
      self._abort_all('deadlock', t)

  def _pick_next(self, me):
    """Next runnable thread other than me, advancing virtual time if everybody sleeps."""
    while True:
      others = [t for t in self.threads if t is not me and t.runnable(self)]
      if others:
        sw = self.switch_at.get(self.steps)
        return others[(sw - 1) % len(others)] if sw else others[0]
      sleepers = [t for t in self.threads if t is not me and not t.done and t.wake is not None and
                  (t.blocked_on is None or t.blocked_on.owner is None)]
      if not sleepers:
        return None
      self.now = max(self.now, min(t.wake for t in sleepers))
      for t in sleepers:
        if t.wake <= self.now and getattr(t, 'wait_ev', None) is None:
          t.wake = None

  def _abort_all(self, why, me=None):
    self.aborted = why
    alive = [t for t in self.threads if not t.done and t is not me]
    for t in alive:
      t.sem.release()
    if not alive:
      self.main_sem.release()

  def point(self, kind='line'):
    if self.aborted:
      raise _Abort()
    me = self.current
    self.steps += 1
    if self.steps > self.max_steps:
      self._abort_all('step-limit', me)
      raise _Abort()
    if self.on_point is not None:
      self.on_point(self, kind)
    sw = self.switch_at.get(self.steps)
    if not sw:
      return
    others = [t for t in self.threads if t is not me and t.runnable(self)]
    if not others:
      return
    self._switch(me, others[(sw - 1) % len(others)], False)

  def _switch(self, me, target, forced):
    self.switch_log.append((self.steps, me.idx, target.idx, forced, me.in_op))
    self.current = target
    target.sem.release()
    me.sem.acquire()
    if self.aborted:
      raise _Abort()

  def block(self, me):
    """me cannot continue (lock held by someone else / sleeping): run others."""
    while not me.runnable(self):
      if self.aborted:
        raise _Abort()
      others = [t for t in self.threads if t is not me and t.runnable(self)]
      if others:
        sw = self.switch_at.get(self.steps)
        target = others[(sw - 1) % len(others)] if sw else others[0]
        self._switch(me, target, True)
        continue
      sleepers = [t for t in self.threads if not t.done and t.wake is not None and
                  (t.blocked_on is None or t.blocked_on.owner is None)]
      if not sleepers:
        self._abort_all('deadlock', me)
        raise _Abort()
      self.now = max(self.now, min(t.wake for t in sleepers))
      for t in sleepers:
        if t.wake <= self.now and getattr(t, 'wait_ev', None) is None:
          t.wake = None

  def sleep(self, dt):
    me = self.current
    if me is None or self.finished:
      self.now += max(0.0, dt)
      return
    self.steps += 1
    if dt > 0:
      me.wake = self.now + dt
      self.block(me)
      me.wake = None
    else:
      self.point('sleep0')

  def preemptions(self):
    return [s for s in self.switch_log if not s[3]]
