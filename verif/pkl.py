"""Mini pickle assembler: emits opcode streams directly so that frames (legacy
Python-2 style, hostile, every global-resolving route) do not depend on pickle.dumps.
All functions return bytes that leave exactly one object on the stack."""
import struct

MARK = b'('
STOP = b'.'
POP = b'0'
EMPTY_LIST = b']'
EMPTY_TUPLE = b')'
EMPTY_DICT = b'}'
APPEND = b'a'
APPENDS = b'e'
LIST = b'l'
TUPLE = b't'
TUPLE1 = b'\x85'
TUPLE2 = b'\x86'
TUPLE3 = b'\x87'
NONE = b'N'
NEWTRUE = b'\x88'
NEWFALSE = b'\x89'
REDUCE = b'R'
BUILD = b'b'
NEWOBJ = b'\x81'
NEWOBJ_EX = b'\x92'
OBJ = b'o'
SETITEM = b's'
SETITEMS = b'u'
DICT = b'd'
BINPUT = b'q'
BINGET = b'h'
MEMOIZE = b'\x94'
STACK_GLOBAL = b'\x93'


def proto(n):
  return b'\x80' + bytes([n])


def frame_op(payload):
  return b'\x95' + struct.pack('<Q', len(payload)) + payload


def p_int(n, style='auto'):
  if style == 'text':           # protocol 0 INT
    return b'I' + str(n).encode() + b'\n'
  if style == 'long_text':      # protocol 0 LONG (python 2 wrote the trailing L)
    return b'L' + str(n).encode() + b'L\n'
  if style == 'long1' or n < -2**31 or n >= 2**31:
    if n == 0:
      data = b''
    else:
      nbytes = (n.bit_length() >> 3) + 1
      data = n.to_bytes(nbytes, 'little', signed=True)
      if n < 0 and nbytes > 1 and data[-1] == 0xff and (data[-2] & 0x80) != 0:
        data = data[:-1]
    if len(data) < 256:
      return b'\x8a' + bytes([len(data)]) + data
    return b'\x8b' + struct.pack('<i', len(data)) + data
  if 0 <= n < 256 and style != 'binint':
    return b'K' + bytes([n])
  if 0 <= n < 65536 and style != 'binint':
    return b'M' + struct.pack('<H', n)
  return b'J' + struct.pack('<i', n)


def p_float(x, style='bin'):
  if style == 'text':           # protocol 0 FLOAT
    return b'F' + repr(float(x)).encode() + b'\n'
  return b'G' + struct.pack('>d', x)


def p_str(s, style='binunicode'):
  raw = s.encode('utf-8', 'surrogatepass')
  if style == 'short_binstring' and len(raw) < 256:   # python 2 str
    return b'U' + bytes([len(raw)]) + raw
  if style in ('binstring', 'short_binstring'):       # python 2 str
    return b'T' + struct.pack('<i', len(raw)) + raw
  if style == 'short_binunicode' and len(raw) < 256:  # protocol 4
    return b'\x8c' + bytes([len(raw)]) + raw
  if style == 'unicode_text':                         # protocol 0 UNICODE
    esc = s.replace('\\', '\\u005c').replace('\0', '\\u0000').replace('\n', '\\u000a') \
           .replace('\r', '\\u000d').replace('\x1a', '\\u001a')
    return b'V' + esc.encode('raw-unicode-escape') + b'\n'
  return b'X' + struct.pack('<I', len(raw)) + raw      # BINUNICODE


def p_bytes(b):
  if len(b) < 256:
    return b'C' + bytes([len(b)]) + b
  return b'B' + struct.pack('<I', len(b)) + b


def p_tuple(items, style='auto'):
  n = len(items)
  if style == 'mark' or n > 3 or n == 0 and style == 'mark':
    return MARK + b''.join(items) + TUPLE
  if n == 0:
    return EMPTY_TUPLE
  return b''.join(items) + [TUPLE1, TUPLE2, TUPLE3][n - 1]


def p_list(items, style='appends'):
  if style == 'mark_list':
    return MARK + b''.join(items) + LIST
  if style == 'append':
    return EMPTY_LIST + b''.join(i + APPEND for i in items)
  if not items:
    return EMPTY_LIST
  return EMPTY_LIST + MARK + b''.join(items) + APPENDS


def p_dict(pairs):
  return EMPTY_DICT + MARK + b''.join(k + v for k, v in pairs) + SETITEMS


def g_global(module, name):
  return b'c' + module.encode('utf-8') + b'\n' + name.encode('utf-8') + b'\n'


def g_stack_global(module, name, style='binunicode'):
  return p_str(module, style) + p_str(name, style) + STACK_GLOBAL


def g_inst(module, name, args=()):
  return MARK + b''.join(args) + b'i' + module.encode('utf-8') + b'\n' + name.encode('utf-8') + b'\n'


def g_obj(cls, args=()):
  return MARK + cls + b''.join(args) + OBJ


def g_reduce(callable_, argtuple):
  return callable_ + argtuple + REDUCE


def g_newobj(cls, argtuple):
  return cls + argtuple + NEWOBJ


def g_newobj_ex(cls, argtuple, kwdict):
  return cls + argtuple + kwdict + NEWOBJ_EX


def g_build(obj, state):
  return obj + state + BUILD


def g_ext(code):
  if code < 256:
    return b'\x82' + bytes([code])
  if code < 65536:
    return b'\x83' + struct.pack('<H', code)
  return b'\x84' + struct.pack('<i', code)


def program(body, protocol=2, framed=False):
  out = b''
  if protocol >= 2:
    out += proto(protocol)
  payload = body + STOP
  if framed and protocol >= 4:
    return out + frame_op(payload)
  return out + payload


def int32_frame(payload):
  return struct.pack('!I', len(payload)) + payload
