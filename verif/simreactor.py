"""Simulated reactor for carbon.client (DESIGN.md 2.5): a task.Clock with connectTCP; the
harness plays the network (connection made / failed / lost, transport paused / resumed,
time advancing)."""
import importlib

from twisted.internet import error
from twisted.internet.address import IPv4Address
from twisted.internet.task import Clock
from twisted.internet.testing import StringTransport
from twisted.python.failure import Failure

from . import env
from .core import HarnessError


class SimTransport(StringTransport):
  """StringTransport that (a) notes writes issued after loseConnection() - a TLS transport drops them, and the
  order "transmit, then close" is what an orderly stop promises - and (b) can push back like a TCP transport:
  once more than `pause_threshold` bytes were written since the last drain it pauses its streaming producer
  from inside write()."""
  pause_threshold = None

  def __init__(self, *a, **kw):
    StringTransport.__init__(self, *a, **kw)
    self.late_writes = []
    self.unflushed = 0
    self.pushed_back = 0

  def write(self, data):
    if self.disconnecting:
      self.late_writes.append(bytes(data))
    StringTransport.write(self, data)
    if self.pause_threshold is not None and self.producer is not None and self.streaming:
      self.unflushed += len(data)
      if self.unflushed > self.pause_threshold and not getattr(self.producer, 'paused', False):
        self.pushed_back += 1
        self.producer.pauseProducing()

  def writeSequence(self, data):
    self.write(b''.join(data))

  def drain(self):
    """the peer has read everything: the producer may go on"""
    self.unflushed = 0
    if self.producer is not None and getattr(self.producer, 'paused', False):
      self.producer.resumeProducing()
      return True
    return False


class SimConnector(object):
  def __init__(self, reactor, host, port, factory):
    self.reactor = reactor
    self.host = host
    self.port = port
    self.factory = factory
    self.state = 'disconnected'
    self.protocol = None
    self.transport = None
    self.factoryStarted = False
    self.connect_count = 0

  # -- API used by carbon / ReconnectingClientFactory ---------------------------
  def connect(self):
    if self.state != 'disconnected':
      raise RuntimeError("can't connect in this state")
    self.state = 'connecting'
    self.connect_count += 1
    if not self.factoryStarted:
      self.factory.doStart()
      self.factoryStarted = True
    self.factory.startedConnecting(self)

  def stopConnecting(self):
    if self.state != 'connecting':
      raise error.NotConnectingError("we're not trying to connect")
    self.state = 'disconnected'
    self.factory.clientConnectionFailed(self, Failure(error.UserError()))

  def disconnect(self):
    if self.state == 'connecting':
      self.stopConnecting()
    elif self.state == 'connected':
      self.transport.loseConnection()

  def getDestination(self):
    return IPv4Address('TCP', self.host, self.port)

  # -- events played by the harness ------------------------------------------------
  def sim_connected(self):
    if self.state != 'connecting':
      return False
    self.state = 'connected'
    self.protocol = self.factory.buildProtocol(self.getDestination())
    self.transport = SimTransport(peerAddress=self.getDestination())
    self.transport.pause_threshold = self.reactor.pause_threshold
    self.transport.sim_connector = self
    self.protocol.makeConnection(self.transport)
    return True

  def sim_connect_failed(self):
    if self.state != 'connecting':
      return False
    self.state = 'disconnected'
    self.factory.clientConnectionFailed(self, Failure(error.ConnectionRefusedError()))
    return True

  def sim_lost(self, clean=False):
    if self.state != 'connected':
      return False
    self.state = 'disconnected'
    reason = Failure(error.ConnectionDone() if clean else error.ConnectionLost())
    proto, self.protocol = self.protocol, None
    proto.connectionLost(reason)
    self.factory.clientConnectionLost(self, reason)
    return True


class SimReactor(Clock):
  running = True

  pause_threshold = None

  def __init__(self):
    Clock.__init__(self)
    self.connectors = []

  def connectTCP(self, host, port, factory, timeout=30, bindAddress=None):
    c = SimConnector(self, host, port, factory)
    self.connectors.append(c)
    # ReconnectingClientFactory schedules its retries on factory.clock
    factory.clock = self
    factory.jitter = 0
    c.connect()
    return c

  def connectSSL(self, *a, **kw):
    raise HarnessError('connectSSL not simulated')

  def callWhenRunning(self, f, *a, **kw):
    return self.callLater(0, f, *a, **kw)

  def addSystemEventTrigger(self, *a, **kw):
    return None

  def settle(self, limit=100000, horizon=None):
    """Fire due timers until none is pending within `horizon` seconds (None: only the ones
    that are due now or at +0)."""
    n = 0
    while True:
      calls = sorted(self.getDelayedCalls(), key=lambda c: c.getTime())
      if not calls:
        return n
      dt = calls[0].getTime() - self.seconds()
      if horizon is not None and dt > horizon:
        return n
      if horizon is None and dt > 0.01:
        return n
      self.advance(max(0.0, dt))
      n += 1
      if n > limit:
        raise HarnessError('timers never settle')


def load_client(**settings_overrides):
  """Reload carbon.client so that its import-time constants (SEND_QUEUE_*) follow the case's
  settings; install a fresh SimReactor."""
  b = env.bootstrap()
  env.reset(**settings_overrides)
  client = importlib.reload(b.client)
  for n in ('CarbonClientFactory', 'CarbonClientManager', 'SEND_QUEUE_LOW_WATERMARK', 'SEND_QUEUE_HARD_MAX'):
    env.need(client, n)
  sim = SimReactor()
  client.reactor = sim
  return b, client, sim


def restore_client():
  b = env.bootstrap()
  from twisted.internet import reactor as real
  b.client.reactor = real
