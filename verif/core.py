"""Runner core: context object, violations, known findings, evidence, replay files.

Every property module exposes
    LEVEL      : evidence level string
    RULE       : text describing generation + non-triviality rule
    ASSUMPTIONS: list of strings
    run(ctx)   : generated search (calls execute(ctx, case) for many cases)
    execute(ctx, case) : run ONE concrete JSON-able case through the real code and
                         the oracle, calling ctx.fail(...) on a violation
A case is plain JSON data (bytes as hex strings), so a replay needs no Hypothesis.
"""
import collections
import hashlib
import json
import os
import sys
import time

VERIF_DIR = os.path.dirname(os.path.dirname(os.path.abspath(__file__)))
KNOWN_FILE = os.path.join(VERIF_DIR, 'KNOWN_FINDINGS.txt')
EVIDENCE_DIR = os.environ.get('VERIF_EVIDENCE_DIR') or os.path.join(VERIF_DIR, 'evidence')
REPLAY_DIR = os.environ.get('VERIF_REPLAY_DIR') or os.path.join(VERIF_DIR, 'replays')

# Seconds of Hypothesis shrinking we allow after the first failure (per tier).
SHRINK_BUDGET = {'quick': 20.0, 'thorough': 90.0}


class Violation(Exception):
  def __init__(self, sig, message, case, subcheck=None):
    Exception.__init__(self, '%s: %s' % (sig, message))
    self.sig = sig
    self.message = message
    self.case = case
    self.subcheck = subcheck


class HarnessError(Exception):
  """Something the harness relies on is missing (patched name gone, dependency
  absent): exit 2, never a VIOLATION."""


def canon(obj):
  return json.dumps(obj, sort_keys=True, default=_default, allow_nan=True)


def _default(o):
  if isinstance(o, (bytes, bytearray)):
    return {'__hex__': bytes(o).hex()}
  if isinstance(o, (set, frozenset)):
    return sorted(o, key=repr)
  if isinstance(o, tuple):
    return list(o)
  return repr(o)


def hash_case(obj):
  return hashlib.sha1(canon(obj).encode('utf-8', 'surrogatepass')).hexdigest()[:16]


def load_known():
  """Parse KNOWN_FINDINGS.txt -> {prop: {sig: text}} for 'known:' lines only."""
  known = collections.defaultdict(dict)
  fixed = collections.defaultdict(list)
  if not os.path.exists(KNOWN_FILE):
    return known, fixed
  for line in open(KNOWN_FILE):
    line = line.strip()
    if not line or line.startswith('#'):
      continue
    kind, _, rest = line.partition(':')
    fields = rest.strip().split(None, 2)
    if kind == 'known':
      prop = fields[0].split('=', 1)[1]
      sig = fields[1].split('=', 1)[1]
      known[prop][sig] = fields[2] if len(fields) > 2 else ''
    elif kind == 'fixed':
      prop = fields[0].split('=', 1)[1]
      fixed[prop].append(rest.strip())
  return known, fixed


class Ctx(object):
  def __init__(self, prop, tier, seed, shard=None, nshards=1):
    self.prop = prop
    self.tier = tier
    self.seed = seed
    self.shard = shard
    self.nshards = nshards
    self.evaluations = 0
    self.nontrivial = set()
    self.classes = collections.Counter()
    self.samples = []
    self.max_samples = 4
    self.excluded_known = collections.Counter()
    self.known_seen = {}
    self.extra = {}
    self.exhaustive = None
    self.replays_run = 0
    known, fixed = load_known()
    self.known = known.get(prop, {})
    self.fixed = fixed.get(prop, [])
    self.temp_excluded = set()     # signatures already reported in this run
    self.first_fail = None
    self.best_fail_key = None
    self.t0 = time.time()
    self.replaying = False
    self.defined_sigs = set()

  # -- bookkeeping -----------------------------------------------------------
  @property
  def quick(self):
    return self.tier == 'quick'

  def scale(self, quick, thorough):
    """Case-count helper: thorough count is per shard."""
    return quick if self.tier == 'quick' else thorough

  def shard_seed(self):
    if self.shard is None:
      return self.seed
    return self.seed * 1000 + self.shard

  def note(self, case, nontrivial=False, classes=(), key=None):
    """Register one executed case."""
    self.evaluations += 1
    for c in classes:
      self.classes[c] += 1
    if nontrivial:
      h = hash_case(case if key is None else key)
      if h not in self.nontrivial:
        self.nontrivial.add(h)
        if len(self.samples) < self.max_samples:
          self.samples.append(trim(case))

  def count(self, cls, n=1):
    self.classes[cls] += n

  def declare(self, *sigs):
    self.defined_sigs.update(sigs)

  # -- failing ----------------------------------------------------------------
  def fail(self, sig, message, case, subcheck=None):
    """Report an oracle failure. Returns (does not raise) when the signature is a
    listed known finding or was already reported in this run, so that the search
    continues past it; the caller must then stop judging this case."""
    if sig in self.known:
      self.excluded_known[sig] += 1
      self.known_seen.setdefault(sig, message)
      return
    if sig in self.temp_excluded:
      self.excluded_known['(reported)' + sig] += 1
      return
    key = hash_case(case)
    now = time.time()
    if not self.replaying:
      if self.first_fail is None:
        self.first_fail = now
      if self.budget_exhausted() and key != self.best_fail_key:
        # shrink budget used up: pretend this candidate passes so Hypothesis
        # finishes and replays the best failing case found so far.
        return
      self.best_fail_key = key
      self.best_outer_key = getattr(self, 'current_outer_key', None)
    raise Violation(sig, message, case, subcheck)

  def budget_exhausted(self):
    if self.first_fail is None:
      return False
    return time.time() - self.first_fail > SHRINK_BUDGET.get(self.tier, 20.0)

  def skip_candidate(self, outer_key):
    """True when the shrink budget is used up and this generated case is not the best failing one: the
    driver then does not even execute it."""
    return (not self.replaying and self.budget_exhausted() and
            getattr(self, 'best_outer_key', None) is not None and outer_key != self.best_outer_key)


def trim(obj, limit=1500):
  s = canon(obj)
  if len(s) <= limit:
    return json.loads(s)
  return {'truncated': s[:limit] + '...'}


def write_replay(prop, v, seed, tier):
  os.makedirs(REPLAY_DIR, exist_ok=True)
  doc = {'property': prop, 'signature': v.sig, 'subcheck': v.subcheck,
         'message': v.message, 'seed': seed, 'tier': tier, 'case': v.case}
  text = canon(doc)
  h = hashlib.sha1(text.encode('utf-8', 'surrogatepass')).hexdigest()[:10]
  path = os.path.join(REPLAY_DIR, '%s-%s.json' % (prop, h))
  with open(path, 'w') as f:
    f.write(json.dumps(json.loads(text), indent=1, allow_nan=True))
  return path


def build_evidence(ctx, mod, violations, wall):
  cov = {
    'evaluations': int(ctx.evaluations),
    'distinct_nontrivial': len(ctx.nontrivial),
    'rule': mod.RULE,
    'samples': ctx.samples,
    'classes': dict(sorted(ctx.classes.items())),
    'excluded_known': dict(ctx.excluded_known),
    'replays_run': ctx.replays_run,
  }
  if ctx.exhaustive is not None:
    cov['exhaustive'] = bool(ctx.exhaustive)
  cov.update(ctx.extra)
  return {
    'property_id': ctx.prop,
    'tier': ctx.tier,
    'seed': int(ctx.seed),
    'level': mod.LEVEL,
    'coverage': cov,
    'assumptions': list(mod.ASSUMPTIONS),
    'wall_s': round(wall, 2),
    'violations': int(violations),
  }


def validate_evidence(doc):
  schema_path = '/root/.vp/EVIDENCE.schema.json'
  local = os.path.join(VERIF_DIR, 'schemas', 'EVIDENCE.schema.json')
  if not os.path.exists(schema_path):
    schema_path = local
  try:
    import jsonschema
  except ImportError:
    return None
  schema = json.load(open(schema_path))
  jsonschema.validate(doc, schema)
  return True


def write_evidence(doc, path=None):
  os.makedirs(EVIDENCE_DIR, exist_ok=True)
  path = path or os.path.join(EVIDENCE_DIR, '%s.json' % doc['property_id'])
  tmp = path + '.tmp'
  with open(tmp, 'w') as f:
    json.dump(doc, f, indent=1, allow_nan=False, default=_default)
  os.replace(tmp, path)
  return path


def jsonsafe(obj):
  """Make floats JSON-schema friendly for evidence (inf/nan -> strings)."""
  if isinstance(obj, float):
    if obj != obj or obj in (float('inf'), float('-inf')):
      return repr(obj)
    return obj
  if isinstance(obj, dict):
    return {str(k): jsonsafe(v) for k, v in obj.items()}
  if isinstance(obj, (list, tuple)):
    return [jsonsafe(v) for v in obj]
  if isinstance(obj, (bytes, bytearray)):
    return bytes(obj).hex()
  return obj
