"""Drive carbon.cache's MetricCache with two scheduled threads (used by C02, C10, C17).

case = {
  'strategy': 'sorted'|'timesorted'|'max'|'bucketmax'|'naive'|'random',
  'max_cache_size': None | int, 'flow': bool, 'lag': 0 | seconds,
  'programs': [[op, ...], [op, ...]],       # thread 0 = receiving thread, thread 1 = writer thread
  'switches': [[step, choice], ...], 'choices': [ints]   (RandomStrategy picks)
}
op = ['store', m, t, v] | ['drain'] | ['query', m] | ['bulk', [m, ...]] | ['wait', dt]
"""
import os
import pickle
import struct

from twisted.internet.testing import StringTransport

from . import env
from .core import HarnessError
from .sched import Sched, install_threading_shim

STRATEGIES = ['sorted', 'timesorted', 'max', 'bucketmax', 'naive', 'random']
T0 = 1000000.0

_derived_cache = {}
_placed = {}
DERIVED = ('CACHE_SIZE_HARD_MAX', 'CACHE_SIZE_LOW_WATERMARK')


def apply_limits(b, max_cache_size, flow, layout='plain'):
  """Put the settings object in the state the daemon's start-up leaves it in: MAX_CACHE_SIZE as
  configured, the two derived limits exactly where (attribute / item) and if postOptions put them."""
  m, hard, low = derived_limits(max_cache_size, flow, layout)
  placed = _placed[(max_cache_size, bool(flow), layout)]
  b.settings['MAX_CACHE_SIZE'] = m
  for k in DERIVED:
    b.settings.pop(k, None)
    b.settings.__dict__.pop(k, None)
  for k, v in placed['attrs'].items():
    b.settings.__dict__[k] = v
  for k, v in placed['items'].items():
    b.settings[k] = v
  return m, hard, low


def derived_limits(max_cache_size, flow, layout='plain'):
  """CACHE_SIZE_HARD_MAX / CACHE_SIZE_LOW_WATERMARK as carbon's own
  CarbonCacheOptions.postOptions computes them (runs the real code once per config)."""
  key = (max_cache_size, bool(flow), layout)
  if key in _derived_cache:
    return _derived_cache[key]
  b = env.bootstrap()
  import contextlib
  import io
  from carbon import conf
  saved = dict(b.settings)
  saved_attrs = dict(b.settings.__dict__)
  saved_db = b.state.database
  root = os.path.join(b.tmp, 'postopt')
  os.makedirs(os.path.join(root, 'conf'), exist_ok=True)
  size = 'inf' if max_cache_size is None else max_cache_size
  other_size = 1000003 if max_cache_size is None else max_cache_size * 7 + 3
  # where the operator wrote the two options: the program section, or (overriding it) the section of instance "a"
  main = {'plain': (size, bool(flow)), 'inst': (other_size, not flow), 'inst-flow': (size, not flow),
          'inst-size': (other_size, bool(flow))}[layout]
  inst = {'plain': None, 'inst': 'MAX_CACHE_SIZE = %s\nUSE_FLOW_CONTROL = %s\n' % (size, bool(flow)),
          'inst-flow': 'USE_FLOW_CONTROL = %s\n' % bool(flow), 'inst-size': 'MAX_CACHE_SIZE = %s\n' % size}[layout]
  with open(os.path.join(root, 'conf', 'carbon.conf'), 'w') as f:
    f.write('[cache]\nDATABASE = verifmem\nMAX_CACHE_SIZE = %s\nUSE_FLOW_CONTROL = %s\n'
            'ENABLE_LOGROTATION = False\n' % main)
    f.write('[cache:b]\nMAX_CACHE_SIZE = 77\nUSE_FLOW_CONTROL = %s\n' % (not flow))
    if inst is not None:
      f.write('[cache:a]\n' + inst)
  with open(os.path.join(root, 'conf', 'storage-schemas.conf'), 'w') as f:
    f.write('[all]\npattern = .*\nretentions = 60:1440\n')
  from . import memdb  # registers the 'verifmem' plugin
  memdb.ensure_registered()

  class Parent(dict):
    subCommand = 'carbon-cache'
  parent = Parent(pidfile='twistd.pid', umask=None, nodaemon=True, syslog=False)
  opts = env.need(conf, 'CarbonCacheOptions')()
  opts.parent = parent
  opts['config'] = os.path.join(root, 'conf', 'carbon.conf')
  opts['debug'] = True
  if inst is not None:
    opts['instance'] = 'a'
  old_env = os.environ.get('GRAPHITE_ROOT')
  os.environ['GRAPHITE_ROOT'] = root
  # the daemon has these two only where postOptions puts them: drop the harness defaults first
  for k in DERIVED:
    b.settings.pop(k, None)
    b.settings.__dict__.pop(k, None)
  try:
    with contextlib.redirect_stdout(io.StringIO()):
      opts.postOptions()
    placed = {'attrs': dict((k, b.settings.__dict__[k]) for k in DERIVED if k in b.settings.__dict__),
              'items': dict((k, dict.__getitem__(b.settings, k)) for k in DERIVED if dict.__contains__(b.settings, k))}
    hard = placed['attrs'].get(DERIVED[0], placed['items'].get(DERIVED[0]))
    low = placed['attrs'].get(DERIVED[1], placed['items'].get(DERIVED[1]))
    mcs = b.settings.MAX_CACHE_SIZE
    _placed[key] = placed
  except SystemExit as e:
    raise HarnessError('postOptions exited: %r' % (e,))
  finally:
    if old_env is None:
      os.environ.pop('GRAPHITE_ROOT', None)
    else:
      os.environ['GRAPHITE_ROOT'] = old_env
    b.settings.clear()
    b.settings.update(saved)
    b.settings.__dict__.clear()
    b.settings.__dict__.update(saved_attrs)
    b.state.database = saved_db
  _derived_cache[key] = (mcs, hard, low)
  return _derived_cache[key]


class Op(object):
  __slots__ = ('thread', 'op', 'args', 'result', 'exc', 'inv', 'resp', 'overflow', 'time', 'sub')

  def __init__(self, thread, op, args):
    self.thread = thread
    self.op = op
    self.args = args
    self.result = None
    self.exc = None
    self.inv = None
    self.resp = None
    self.overflow = 0
    self.time = None
    self.sub = None

  def brief(self):
    return [self.thread, self.op, self.args, self.result if self.exc is None else 'RAISED %r' % (self.exc,),
            self.inv, self.resp] + ([{'overflow': self.overflow}] if self.overflow else [])


class CacheRun(object):
  """Result of one scheduled execution."""
  pass


def run_case(case, on_point=None, trace_protocols=True, extra_trace=(), post=None, setup=None, extra_ops=None):
  b = env.bootstrap()
  strategy = case['strategy']
  mcs = case.get('max_cache_size')
  flow = bool(case.get('flow'))
  overrides = {'CACHE_WRITE_STRATEGY': strategy, 'MIN_TIMESTAMP_LAG': case.get('lag', 0),
               'USE_FLOW_CONTROL': flow, 'LOG_CACHE_HITS': False}
  env.reset(**overrides)
  apply_limits(b, mcs, flow, case.get('conf_layout', 'plain'))
  cachemod = b.cache
  files = [cachemod.__file__, b.events.__file__]
  if trace_protocols:
    files.append(b.protocols.__file__)
  files += list(extra_trace)
  sched = Sched(case.get('switches', ()), files, start=T0,
                opcode_files=[cachemod.__file__] if case.get('opcodes') else ())
  choices = list(case.get('choices', ()))

  def fake_choice(seq):
    seq = list(seq)
    k = choices.pop(0) if choices else 0
    return seq[k % len(seq)]

  saved = {'time': cachemod.time, 'choice': env.need(cachemod, 'choice')}
  cachemod.time = sched.time
  cachemod.choice = fake_choice
  unshim = install_threading_shim(sched, [cachemod, b.events, b.protocols])
  run = CacheRun()
  run.sched = sched
  run.history = [[], []]
  run.overflow_events = []
  run.free_lock_violations = []
  try:
    cache = cachemod.MetricCache()
    if not hasattr(cache, 'lock'):
      raise HarnessError('_MetricCache has no .lock attribute any more')
    cache.lock = sched.make_lock(like=cache.lock)
    run.cache = cache
    if setup is not None:
      setup(run, sched)
    current_op = [None, None]

    def overflow_handler():
      cur = sched.current
      idx = cur.idx if cur is not None else 0
      run.overflow_events.append(idx)
      if current_op[idx] is not None:
        current_op[idx].overflow += 1
    b.events.cacheOverflow.handlers.append(overflow_handler)
    # sequential history before the two threads start (so that a single preemption of the writer's first drain
    # already meets a non-empty cache): completed stores of the receiving thread
    for spec in case.get('prefill_stores', ()):
      op = Op(0, 'store', list(spec))
      op.time = sched.now
      op.inv = sched.tick()
      current_op[0] = op
      try:
        cache.store(spec[0], (spec[1], spec[2]))
      except Exception as e:  # noqa: judged by the property's oracle
        op.exc = e
      current_op[0] = None
      op.resp = sched.tick()
      run.history[0].append(op)

    handler = None

    def get_handler():
      nonlocal handler
      if handler is None:
        handler = env.need(b.protocols, 'CacheManagementHandler')()
        handler.makeConnection(StringTransport())
      return handler

    def do_query(request):
      hd = get_handler()
      hd.transport.clear()
      payload = pickle.dumps(request, protocol=2)
      hd.dataReceived(struct.pack('!I', len(payload)) + payload)
      raw = hd.transport.value()
      (n,) = struct.unpack('!I', raw[:4])
      return pickle.loads(raw[4:4 + n])

    if on_point is not None:
      sched.on_point = lambda s, kind: on_point(run, s, kind)

    def make_thread(idx, program):
      def body():
        me = sched.threads[idx]
        for spec in program:
          kind = spec[0]
          if kind == 'wait':
            sched.sleep(float(spec[1]))
            continue
          if extra_ops and kind in extra_ops:
            extra_ops[kind](run, sched, spec)
            continue
          op = Op(idx, kind, spec[1:])
          current_op[idx] = op
          op.time = sched.now
          op.inv = sched.tick()
          me.in_op = True
          try:
            if kind == 'store':
              cache.store(spec[1], (spec[2], spec[3]))
            elif kind == 'drain':
              m, pts = cache.drain_metric()
              op.result = [m, [list(p) for p in pts]]
            elif kind == 'query':
              r = do_query({'type': 'cache-query', 'metric': spec[1]})
              op.result = [list(p) for p in r['datapoints']]
            elif kind == 'bulk':
              r = do_query({'type': 'cache-query-bulk', 'metrics': list(spec[1])})
              op.result = {m: [list(p) for p in v] for m, v in r['datapointsByMetric'].items()}
            else:
              raise HarnessError('unknown op %r' % (kind,))
          except HarnessError:
            raise
          except Exception as e:  # noqa: judged by the property's oracle
            op.exc = e
          finally:
            me.in_op = False
            op.resp = sched.tick()
            current_op[idx] = None
            run.history[idx].append(op)
      return body

    for idx, program in enumerate(case['programs']):
      sched.spawn('t%d' % idx, make_thread(idx, program))
    sched.run(case.get('first', 0))
    for t in sched.threads:
      if isinstance(t.exc, HarnessError):
        raise t.exc
      if t.exc is not None:
        raise HarnessError('thread body failed: %r' % (t.exc,))
    run.aborted = sched.aborted
    if post is not None and not sched.aborted:
      post(run, sched, Op)
    run.final = {m: dict(d) for m, d in dict.items(cache)}
    run.final_size = cache.size
    run.preemptions_in_op = sum(1 for s in sched.preemptions() if s[4])
    run.preemptions = len(sched.preemptions())
    run.steps = sched.steps
    run.end_time = sched.now
    return run
  finally:
    unshim()
    cachemod.time = saved['time']
    cachemod.choice = saved['choice']


# ---- sequential specification -------------------------------------------------------
def freeze(state):
  return frozenset((m, frozenset(d.items())) for m, d in state.items())


def thaw(fstate):
  return {m: dict(items) for m, items in fstate}


def groups_from_history(history):
  """Convert Op lists into lin.py groups (bulk queries become groups of per-metric reads)."""
  out = []
  for ops in history:
    groups = []
    for op in ops:
      if op.op == 'bulk' and op.exc is None and isinstance(op.result, dict):
        grp = [dict(op='query', args=[m], result=op.result.get(m), inv=op.inv, resp=op.resp, overflow=0, ref=op)
               for m in op.args[0]]
        if not grp:
          continue
        groups.append(grp)
      else:
        groups.append([dict(op=op.op, args=op.args, result=op.result, inv=op.inv, resp=op.resp,
                            overflow=op.overflow, exc=op.exc, ref=op)])
    out.append(groups)
  return out


def make_spec(hard_max=None, check_overflow=False, allow_none_nonempty=False):
  """Sequential spec of the cache.  State: frozenset of (metric, frozenset((t, v)))."""
  def spec(fstate, sub):
    state = dict((m, items) for m, items in fstate)
    op = sub['op']
    if sub.get('exc') is not None:
      return None
    if op == 'store':
      m, t, v = sub['args']
      cur = dict(state.get(m, ()))
      size = sum(len(i) for i in state.values())
      if t in cur:
        if check_overflow and sub['overflow']:
          return None
        cur[t] = v
      else:
        if hard_max is not None and size >= hard_max:
          # must be refused, signalled (exactly once), nothing changes
          if check_overflow and sub['overflow'] != 1:
            return None
          return fstate
        if check_overflow and sub['overflow']:
          return None
        cur[t] = v
      state[m] = frozenset(cur.items())
      return frozenset(state.items())
    if op == 'drain':
      m, pts = sub['result']
      if m is None:
        if pts:
          return None
        if state and not allow_none_nonempty:
          return None
        return fstate
      if m not in state:
        return None
      want = sorted(dict(state[m]).items())
      got = [tuple(p) for p in pts]
      if got != want:
        return None
      del state[m]
      return frozenset(state.items())
    if op == 'query':
      m = sub['args'][0]
      got = sub['result']
      if got is None:
        return None
      want = dict(state.get(m, ()))
      gd = {}
      for t, v in got:
        if t in gd:
          return None
        gd[t] = v
      return fstate if gd == want else None
    return None
  return spec
