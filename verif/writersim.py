"""Drive carbon.writer's writeForever()/writeCachedDataPoints() as the writer thread of a
scheduled run against the in-memory backend (used by C03, C04, C19, C20).

case = {
  'strategy', 'lag', 'updates_per_second': None|n, 'creates_per_minute': None|n,
  'shutdown_rate': None|n,
  'recv': [op...]   op = ['store', m, t, v] | ['wait', dt] | ['stop']
  'switches': [[step, choice]...], 'faults': {call_index: 'ioerror'|'exception'},
  'precreated': [metric...], 'end_wait': seconds (virtual) the receiver waits before the final stop
}
"""
import importlib

from . import env, memdb
from .core import HarnessError
from .sched import Sched, install_threading_shim

T0 = 1000000.0
STAT_KEYS = ('committedPoints', 'droppedCreates', 'errors', 'creates')


class FakeReactor(object):
  def __init__(self):
    self.running = True
    self.triggers = []

  def addSystemEventTrigger(self, phase, event, f, *a, **kw):
    self.triggers.append((phase, event, f, a, kw))

  def callInThread(self, f, *a, **kw):
    # the harness runs writeForever() on its own scheduled thread; what the service asks for is only noted
    self.in_thread = getattr(self, 'in_thread', []) + [f]


class WriterRun(object):
  pass


def run_case(case, trace_cache=True, schemas_text=None, aggregation_text=None, stop_mode='orderly'):
  b = env.bootstrap()
  inf = float('inf')
  overrides = {
    'CACHE_WRITE_STRATEGY': case.get('strategy', 'sorted'),
    'MIN_TIMESTAMP_LAG': case.get('lag', 0),
    'MAX_UPDATES_PER_SECOND': inf if case.get('updates_per_second') is None else case['updates_per_second'],
    'MAX_CREATES_PER_MINUTE': inf if case.get('creates_per_minute') is None else case['creates_per_minute'],
    'LOG_UPDATES': case.get('log_updates', True), 'LOG_CREATES': case.get('log_creates', True), 'ENABLE_TAGS': case.get('enable_tags', True), 'USE_FLOW_CONTROL': False,
  }
  if case.get('shutdown_rate') is not None:
    overrides['MAX_UPDATES_PER_SECOND_ON_SHUTDOWN'] = case['shutdown_rate']
  env.reset(**overrides)
  if 'MAX_UPDATES_PER_SECOND_ON_SHUTDOWN' in b.settings and case.get('shutdown_rate') is None:
    del b.settings['MAX_UPDATES_PER_SECOND_ON_SHUTDOWN']
  import os
  for name, text in (('storage-schemas.conf', schemas_text), ('storage-aggregation.conf', aggregation_text)):
    path = os.path.join(b.conf_dir, name)
    if text is None:
      if name == 'storage-schemas.conf':
        text = '[everything]\npattern = .*\nretentions = 60:1440\n'
      else:
        if os.path.exists(path):
          os.unlink(path)
        continue
    with open(path, 'w') as f:
      f.write(text)

  db = memdb.new_db()
  b.state.database = db
  for m in case.get('precreated', ()):
    db.files[m] = ('pre', None, None)
  db.faults = {int(k): v for k, v in (case.get('faults') or {}).items()}

  files = [b.writer.__file__, b.util.__file__]
  if trace_cache:
    files += [b.cache.__file__, b.events.__file__]
  sched = Sched(case.get('switches', ()), files, start=T0, max_steps=case.get('max_steps', 80000))
  db.clock = sched.time.time

  saved = {'util.time': b.util.time, 'util.sleep': b.util.sleep, 'cache.time': b.cache.time}
  b.util.time = sched.time.time
  b.util.sleep = sched.sleep
  b.cache.time = sched.time
  run = WriterRun()
  run.sched = sched
  run.db = db
  run.events = []
  run.stores = []
  run.stop_time = None
  run.log_errors = b.log_errors
  unshim = lambda: None   # noqa
  try:
    writer = importlib.reload(b.writer)
    for name in ('writeForever', 'writeCachedDataPoints', 'shutdownModifyUpdateSpeed'):
      env.need(writer, name)
    reactor = FakeReactor()
    writer.reactor = reactor
    writer.time = sched.time
    run.writer = writer
    unshim = install_threading_shim(sched, [writer, b.cache, b.util, b.events])
    # the service registers its own shutdown triggers with the reactor, as in the daemon
    svc = env.need(writer, 'WriterService')()
    try:
      svc.startService()
    except Exception as e:  # noqa
      raise HarnessError('WriterService.startService() failed in the harness: %r' % (e,))
    run.service = svc
    run.reload_ended = False
    if case.get('reload_ended'):
      # earlier in the daemon's life one of the periodic schema reload timers ended (a LoopingCall whose function
      # raised - e.g. SystemExit out of a schema file with an invalid retention - is simply not running any more,
      # the daemon goes on): the orderly stop arrives in that state
      task = getattr(svc, 'storage_reload_task', None)
      if task is not None and getattr(task, 'running', False):
        task.stop()
        run.reload_ended = True
    cache = b.cache.MetricCache()
    cache.lock = sched.make_lock(like=cache.lock)
    run.cache = cache

    def snap():
      st = b.instrumentation.stats
      return tuple(st.get(k, 0) for k in STAT_KEYS) + (len(b.log_errors),)

    real_drain = cache.drain_metric

    def drain_wrapper():
      res = real_drain()
      m, pts = res
      run.events.append(['drain', m, [tuple(p) for p in pts], snap(), sched.now])
      return res
    cache.drain_metric = drain_wrapper

    def on_call(rec):
      run.events.append(['call', rec, snap(), sched.now])
    db.on_call = on_call

    run.trigger_exc = None

    def do_stop():
      run.stop_time = sched.now
      run.stop_step = sched.steps
      wt = sched.threads[1]
      lag = case.get('lag', 0)
      run.at_stop = {
        'writer_sleeping': wt.wake is not None and not wt.done,
        'cached': cache.size,
        'between_drain_and_write': bool(run.events) and run.events[-1][0] == 'drain' and run.events[-1][1] is not None,
        'younger_than_lag': bool(lag) and any(sched.now - t <= lag for d in dict.values(cache) for t in d),
      }
      if stop_mode == 'orderly':
        # the registered 'before shutdown' trigger; Twisted logs a trigger that raises and carries on stopping
        for (phase, event, f, a, kw) in list(reactor.triggers):
          if phase == 'before' and event == 'shutdown':
            try:
              f(*a, **kw)
            except Exception as e:  # noqa: what it leaves undone is judged on the data
              run.trigger_exc = e
      reactor.running = False                   # what reactor.crash() does in the 'during' phase

    def recv_body():
      for op in case['recv']:
        if op[0] == 'store':
          cache.store(op[1], (op[2], op[3]))
          run.stores.append((op[1], op[2], op[3], sched.now))
        elif op[0] == 'wait':
          sched.sleep(float(op[1]))
        elif op[0] == 'stop':
          if reactor.running:
            do_stop()
        else:
          raise HarnessError('unknown op %r' % (op,))
      if reactor.running:
        sched.sleep(float(case.get('end_wait', 5)))
        do_stop()

    def writer_body():
      writer.writeForever()
      run.writer_returned_at = sched.now

    sched.spawn('recv', recv_body)
    sched.spawn('writer', writer_body)
    sched.run(case.get('first', 0))
    for t in sched.threads:
      if isinstance(t.exc, HarnessError):
        raise t.exc
    run.recv_exc = sched.threads[0].exc
    run.writer_exc = sched.threads[1].exc
    run.aborted = sched.aborted
    run.final = {m: dict(d) for m, d in dict.items(cache)}
    run.final_snap = snap()
    run.steps = sched.steps
    run.preemptions = len(sched.preemptions())
    run.switch_log = list(sched.switch_log)
    run.end_time = sched.now
    run.stats = dict(b.instrumentation.stats)
    run.create_bucket = writer.CREATE_BUCKET
    run.update_bucket = writer.UPDATE_BUCKET
    return run
  finally:
    try:
      if getattr(run, 'service', None) is not None:
        run.service.stopService()
    except Exception:  # noqa
      pass
    unshim()
    b.util.time = saved['util.time']
    b.util.sleep = saved['util.sleep']
    b.cache.time = saved['cache.time']
    try:
      b.writer.time = __import__('time')
      from twisted.internet import reactor as real_reactor
      b.writer.reactor = real_reactor
    except Exception:
      pass


def windows(run):
  """Split the writer's event log into per-batch windows:
  [(metric, batch, snap_at_drain, [events until the next drain], snap_after)]"""
  out = []
  cur = None
  for ev in run.events:
    if ev[0] == 'drain':
      if cur is not None:
        cur['after'] = ev[3]
        out.append(cur)
        cur = None
      if ev[1] is not None:
        cur = {'metric': ev[1], 'batch': ev[2], 'snap': ev[3], 'calls': [], 'time': ev[4]}
    elif cur is not None:
      cur['calls'].append(ev)
  if cur is not None:
    cur['after'] = run.final_snap
    out.append(cur)
  return out
