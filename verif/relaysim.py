"""Drive a carbon relay (setupPipeline(['relay']) -> CarbonClientManager -> client factories) on the
simulated reactor (used by C07 and C09).

case = {
  'ndest': 1..4, 'protocol': 'pickle'|'line', 'max_queue': n, 'batch': n, 'low_pct': f, 'hard_pct': f,
  'flow': bool, 'dynamic': bool, 'max_retries': n, 'receivers': 0..3,
  'ops': [['dp'], ['self'], ['connect_ok', d], ['connect_fail', d], ['lost', d], ['pause', d], ['resume', d],
          ['advance', dt], ['stop'], ['recv_connect'], ['burst', n]]
}
"""
import pickle
import struct

from twisted.application.service import MultiService
from twisted.internet.testing import StringTransport

from . import env, simreactor
from .core import HarnessError

DEST_TRIPLES = [('10.0.0.1', 2004, 'a'), ('10.0.0.2', 2004, 'a'), ('10.0.0.1', 2104, 'b'), ('10.0.0.3', 2004, None)]


def dest_string(d):
  return '%s:%d%s' % (d[0], d[1], '' if d[2] is None else ':' + d[2])


class Trace(object):
  pass


def decode(proto, data):
  out = []
  if proto == 'pickle':
    off = 0
    while off + 4 <= len(data):
      (n,) = struct.unpack('!I', data[off:off + 4])
      if off + 4 + n > len(data):
        break
      out.extend((m, tuple(dp)) for m, dp in pickle.loads(data[off + 4:off + 4 + n]))
      off += 4 + n
  else:
    for line in data.split(b'\r\n'):
      if not line.strip():
        continue
      m, v, t = line.decode('utf-8').split()
      out.append((m, (float(t), float(v))))
  return out


TS = 1500000000      # timestamp of every datapoint the harness sends; the relay's own metrics carry the wall clock


def run_case(case, step_hook=None):
  hard_pct = case.get('hard_pct', 1.25)
  dests = DEST_TRIPLES[:case['ndest']]
  b, client, sim = simreactor.load_client(
    MAX_QUEUE_SIZE=case['max_queue'], MAX_DATAPOINTS_PER_MESSAGE=case['batch'],
    QUEUE_LOW_WATERMARK_PCT=case.get('low_pct', 0.8), MAX_QUEUE_SIZE_HARD_PCT=hard_pct,
    USE_FLOW_CONTROL=bool(case.get('flow')), DYNAMIC_ROUTER=bool(case.get('dynamic')),
    DYNAMIC_ROUTER_MAX_RETRIES=case.get('max_retries', 1), DESTINATION_PROTOCOL=case['protocol'],
    DESTINATIONS=[dest_string(d) for d in dests], RELAY_METHOD=case.get('method', 'consistent-hashing'), REPLICATION_FACTOR=1,
    DIVERSE_REPLICAS=False, ROUTER_HASH_TYPE='carbon_ch', TAG_RELAY_NORMALIZED=False, LOG_LISTENER_CONN_SUCCESS=False,
    program='carbon-relay', instance=None,
    # documented option: reset a connection whose sent/received ratio of the previous instrumentation period is poor
    USE_RATIO_RESET=bool(case.get('ratio_reset')), MIN_RESET_STAT_FLOW=1, MIN_RESET_RATIO=0.9,
    MIN_RESET_INTERVAL=case.get('reset_interval', 2))
  # carbon.client's wall clock (time of the last reset) follows the simulated reactor
  client.time = lambda: 1600000000.0 + sim.seconds()
  # a TCP-like transport: once more than this many bytes are pending it pauses the client protocol from inside
  # write(); the peer reading ('resume' events, quiescence) lets it go on
  sim.pause_threshold = case.get('pause_after')
  t = Trace()
  t.sim = sim
  t.client = client
  t.b = b
  t.dests = dests
  t.events = []            # chronological log of everything observed
  t.arrivals = {d: [] for d in dests}     # per destination: (id, kind, accepted, qlen_before, nonprio_before)
  t.arrivals[None] = []
  t.priority_ids = set()
  t.all_ids = []
  t.written = {d: [] for d in dests}      # decoded ids in write order
  t.transports = {d: [] for d in dests}
  t.stop_snapshot = None
  t.stop_buffer = []
  t.closing_seen = {}
  t.step_checks = []
  t.paused_history = []
  t.own_drops = {d: 0 for d in dests}      # the relay's own periodic metrics discarded at a full queue
  t.own_accepted = {d: 0 for d in dests}
  t.reported = {}                          # full metric name -> values reported by recordMetrics()
  t.records = 0
  real_record = None
  try:
    if case.get('method') == 'rules':
      # relay-rules.conf: the last digit of 'm.<n>' picks the destination, everything else goes to the first one
      lines = []
      for j, d in enumerate(dests):
        digits = ''.join(str(k) for k in range(10) if k % len(dests) == j)
        lines += ['[r%d]' % j, 'pattern = ^m\\.\\d*[%s]$' % digits, 'destinations = %s' % dest_string(d), '']
      lines += ['[default]', 'default = true', 'destinations = %s' % dest_string(dests[0]), '']
      with open(b.settings['relay-rules'], 'w') as f:
        f.write('\n'.join(lines))
    root = MultiService()
    service = b.service
    service.setupPipeline(['relay'], root, b.settings)
    mgr = b.state.client_manager
    if mgr is None:
      raise HarnessError('setupPipeline did not create a client manager')
    t.mgr = mgr
    root.startService()
    t.factories = {d: mgr.client_factories[d] for d in dests}
    fake = mgr.client_factories[None]
    t.fake = fake
    # observe arrival order at each queue (wrap, record, delegate)
    for d, f in t.factories.items():
      def wrap(f=f, d=d):
        real_send, real_prio = f.sendDatapoint, f.sendHighPriorityDatapoint

        def send(metric, datapoint):
          before = len(f.queue)
          if datapoint[0] != TS:
            # one of the relay's own periodic metrics (recordMetrics): an ordinary datapoint to the queue
            real_send(metric, datapoint)
            if len(f.queue) == before + 1:
              t.own_accepted[d] += 1
            else:
              t.own_drops[d] += 1
            return
          nonprio = sum(1 for m, dp in f.queue if dp[1] not in t.priority_ids or dp[0] != TS)
          real_send(metric, datapoint)
          accepted = len(f.queue) == before + 1
          t.arrivals[d].append((datapoint[1], 'normal', accepted, before, nonprio))
          t.events.append(('arrive', d, datapoint[1], accepted, before))

        def prio(metric, datapoint):
          real_prio(metric, datapoint)
          t.arrivals[d].append((datapoint[1], 'priority', True, None, None))
          t.events.append(('arrive-priority', d, datapoint[1]))
        f.sendDatapoint = send
        f.sendHighPriorityDatapoint = prio
      wrap()
    real_fake_send = fake.sendDatapoint

    def fake_send(metric, datapoint):
      real_fake_send(metric, datapoint)
      t.arrivals[None].append((datapoint[1], 'normal', True, None, None))
    fake.sendDatapoint = fake_send
    fake.sendHighPriorityDatapoint = fake_send

    real_record = env.need(b.instrumentation, 'relay_record')

    def relay_record(metric, value):
      t.reported.setdefault(metric, []).append(value)
      real_record(metric, value)
    b.instrumentation.relay_record = relay_record

    receivers = []

    t.unpaused_connect = False

    def add_receiver():
      r = b.protocols.MetricLineReceiver()
      before = bool(b.state.metricReceiversPaused)
      r.makeConnection(StringTransport())
      if before and b.state.metricReceiversPaused and r.transport.producerState != 'paused':
        t.unpaused_connect = True
      receivers.append(r)
    t.receivers = receivers
    for _ in range(case.get('receivers', 0)):
      add_receiver()

    counter = [0]
    seen_bytes = {}
    reset_seen = {}

    def harvest():
      for d, f in t.factories.items():
        c = getattr(f, 'connector', None)
        tr = getattr(c, 'transport', None)
        if tr is None:
          continue
        if tr not in t.transports[d]:
          t.transports[d].append(tr)
        for tr2 in t.transports[d]:
          data = tr2.value()
          pos = seen_bytes.get(id(tr2), 0)
          if len(data) > pos:
            new = decode(case['protocol'], data[pos:]) if case['protocol'] == 'line' else None
            if case['protocol'] == 'pickle':
              # frames are written whole: decode from the last frame boundary
              new = decode('pickle', data[pos:])
            seen_bytes[id(tr2)] = len(data)
            for m, dp in new:
              if int(dp[0]) != TS:
                continue           # the relay's own periodic metrics
              t.written[d].append(int(dp[1]))
              t.events.append(('written', d, int(dp[1])))
          if tr2.disconnecting and id(tr2) not in t.closing_seen:
            resets = b.instrumentation.stats.get('destinations.%s.slowConnectionReset' % ('%s:%d:%s' % d).replace('.', '_'), 0) + \
                sum(sum(v) for k, v in t.reported.items() if k.endswith('.slowConnectionReset') and ('%s:%d:%s' % d).replace('.', '_') in k)
            t.closing_seen[id(tr2)] = {'dest': d, 'queue': [dp[1] for m, dp in f.queue if dp[0] == TS],
                                       'written': list(t.written[d]), 'stopped': t.stop_snapshot is not None,
                                       # closed by the connection-quality reset (USE_RATIO_RESET), not by the stop
                                       'quality_reset': resets > reset_seen.get(d, 0)}
            reset_seen[d] = resets
            t.events.append(('closing', d))

    def auto_close():
      # Twisted delivers connectionLost after loseConnection() once the buffer is flushed
      for d, f in t.factories.items():
        c = getattr(f, 'connector', None)
        if c is not None and c.state == 'connected' and c.transport.disconnecting:
          c.sim_lost(clean=True)

    def conn(i):
      d = dests[i % len(dests)]
      return d, getattr(t.factories[d], 'connector', None)

    t.skipped = 0
    for step, op in enumerate(case['ops']):
      kind = op[0]
      if kind in ('dp', 'burst', 'self') and t.stop_snapshot is not None:
        # the service has been stopped: its receivers are gone, nothing arrives any more
        t.skipped += 1
        continue
      if kind in ('dp', 'burst'):
        for _ in range(op[1] if kind == 'burst' else 1):
          counter[0] += 1
          i = counter[0]
          t.all_ids.append(i)
          b.events.metricReceived('m.%d' % (i % 61), (TS, i))
      elif kind == 'self':
        counter[0] += 1
        i = counter[0]
        t.all_ids.append(i)
        t.priority_ids.add(i)
        mgr.sendHighPriorityDatapoint('carbon.relays.self.%d' % (i % 3), (TS, i))
      elif kind in ('connect_ok', 'connect_fail', 'lost', 'pause', 'resume'):
        d, c = conn(op[1])
        ok = False
        if c is not None:
          if kind == 'connect_ok':
            ok = c.sim_connected()
          elif kind == 'connect_fail':
            ok = c.sim_connect_failed()
          elif kind == 'lost':
            ok = c.sim_lost()
          elif kind == 'pause' and c.state == 'connected' and not c.protocol.paused:
            c.protocol.pauseProducing()
            ok = True
          elif kind == 'resume' and c.state == 'connected' and c.protocol.paused:
            if not c.transport.drain():
              c.protocol.resumeProducing()
            ok = True
        if not ok:
          t.skipped += 1
        else:
          t.events.append((kind, d))
      elif kind == 'advance':
        sim.advance(float(op[1]))
      elif kind == 'stop':
        if t.stop_snapshot is None:
          t.stop_snapshot = {d: [dp[1] for m, dp in f.queue if dp[0] == TS] for d, f in t.factories.items()}
          t.stop_buffer = [dp[1] for m, dp in fake.queue if dp[0] == TS]
          t.events.append(('stop',))
          root.stopService()
      elif kind == 'recv_connect':
        add_receiver()
      elif kind == 'record':
        # the instrumentation timer fires: the relay reports its counters as datapoints of its own, which go
        # through the same pipeline into the same queues
        if t.stop_snapshot is None:
          t.records += 1
          b.instrumentation.recordMetrics()
        else:
          t.skipped += 1
      else:
        raise HarnessError('unknown op %r' % (op,))
      harvest()
      auto_close()
      harvest()
      t.paused_history.append(bool(b.state.metricReceiversPaused))
      if step_hook is not None:
        step_hook(t, step, op)

    # ---- quiescence: everything reachable comes up, transports resume, timers fire -----
    t.pre_quiesce = {d: (getattr(f.connector, 'state', None) if getattr(f, 'connector', None) else None)
                     for d, f in t.factories.items()}
    if case.get('quiesce', 'all-up') == 'all-up':
      for _ in range(60):
        progressed = False
        for d, f in t.factories.items():
          c = getattr(f, 'connector', None)
          if c is None:
            continue
          if c.state == 'connecting':
            c.sim_connected()
            progressed = True
          if c.state == 'connected' and c.protocol.paused:
            if not c.transport.drain():
              c.protocol.resumeProducing()
            progressed = True
        n = sim.settle(horizon=30.0)
        harvest()
        auto_close()
        harvest()
        if not progressed and n == 0:
          break
    else:
      # environment keeps whatever is down down; only timers fire and transports resume
      for _ in range(20):
        for d, f in t.factories.items():
          c = getattr(f, 'connector', None)
          if c is not None and c.state == 'connected' and c.protocol.paused:
            if not c.transport.drain():
              c.protocol.resumeProducing()
        n = sim.settle(horizon=0.5)
        harvest()
        auto_close()
        harvest()
        if n == 0:
          break
    t.final_queues = {d: [dp[1] for m, dp in f.queue if dp[0] == TS] for d, f in t.factories.items()}
    t.final_queue_lens = {d: len(f.queue) for d, f in t.factories.items()}
    t.final_buffer = [dp[1] for m, dp in fake.queue if dp[0] == TS]
    t.final_states = {d: (f.connector.state if getattr(f, 'connector', None) else None) for d, f in t.factories.items()}
    t.stats = dict(b.instrumentation.stats)
    t.router_dests = set(d for d in dests if mgr.router.hasDestination(d))
    t.paused = bool(b.state.metricReceiversPaused)
    t.receiver_states = [r.transport.producerState for r in receivers]
    t.low = client.SEND_QUEUE_LOW_WATERMARK
    t.hard = client.SEND_QUEUE_HARD_MAX
    t.log_errors = list(b.log_errors)
    return t
  finally:
    if real_record is not None:
      b.instrumentation.relay_record = real_record
    simreactor.restore_client()
