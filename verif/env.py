"""Bootstrap carbon from the working tree for in-process checks and give every case a
clean copy of all global state (DESIGN.md section 2.1)."""
import atexit
import copy
import importlib
import io
import os
import resource
import shutil
import sys
import tempfile
import types

from .core import HarnessError

REPO_LIB = os.environ.get('VERIF_CARBON_LIB', '/repo/lib')

_boot = None


class Boot(object):
  pass


def limit_memory(gib=6):
  try:
    soft, hard = resource.getrlimit(resource.RLIMIT_AS)
    lim = gib * (1 << 30)
    if hard != resource.RLIM_INFINITY:
      lim = min(lim, hard)
    resource.setrlimit(resource.RLIMIT_AS, (lim, hard))
  except Exception:
    pass


def _stub_whisper():
  """A stand-in for the whisper library (not installed here): real files in the
  data directory so WhisperDatabase's own path logic runs for real."""
  mod = types.ModuleType('whisper')
  mod.aggregationMethods = ['average', 'sum', 'last', 'max', 'min', 'avg_zero',
                            'absmax', 'absmin']
  mod.AUTOFLUSH = False
  mod.CAN_FALLOCATE = False
  mod.CAN_LOCK = False
  mod.LOCK = False
  mod.CAN_FADVISE = False
  mod.FADVISE_RANDOM = False
  mod.created = []
  mod.updated = []

  class InvalidConfiguration(Exception):
    pass
  mod.InvalidConfiguration = InvalidConfiguration

  def create(path, archiveList, xFilesFactor=None, aggregationMethod=None,
             sparse=False, useFallocate=False):
    if os.path.exists(path):
      raise InvalidConfiguration("File %s already exists!" % path)
    with open(path, 'wb') as f:
      f.write(b'WSP')
    mod.created.append(path)

  def update_many(path, points):
    with open(path, 'ab') as f:
      f.write(b'.')
    mod.updated.append((path, list(points)))

  def validateArchiveList(archiveList):
    if not archiveList:
      raise InvalidConfiguration("You must specify at least one archive configuration!")

  def info(path):
    return {'aggregationMethod': 'average'}

  def setAggregationMethod(path, value):
    return 'average'

  mod.create = create
  mod.update_many = update_many
  mod.validateArchiveList = validateArchiveList
  mod.info = info
  mod.setAggregationMethod = setAggregationMethod
  return mod


def _stub_ceres():
  """Stand-in for ceres with the library's documented node->path mapping
  (CeresTree.getFilesystemPath = join(root, nodePath.replace('.', os.sep)))."""
  mod = types.ModuleType('ceres')
  mod.CAN_LOCK = False
  mod.LOCK_WRITES = False
  mod.MAX_SLICE_GAP = 80

  def setDefaultNodeCachingBehavior(b):
    pass

  def setDefaultSliceCachingBehavior(b):
    pass

  class CeresTree(object):
    def __init__(self, root):
      self.root = os.path.abspath(root)
      self.created = []

    def getFilesystemPath(self, nodePath):
      return os.path.join(self.root, nodePath.replace('.', os.sep))

    def hasNode(self, nodePath):
      return os.path.exists(self.getFilesystemPath(nodePath))

    def createNode(self, nodePath, **properties):
      p = self.getFilesystemPath(nodePath)
      os.makedirs(p)
      self.created.append(p)

    def store(self, nodePath, datapoints):
      pass

  mod.setDefaultNodeCachingBehavior = setDefaultNodeCachingBehavior
  mod.setDefaultSliceCachingBehavior = setDefaultSliceCachingBehavior
  mod.CeresTree = CeresTree
  return mod


def bootstrap(stub_backends=False):
  """Import carbon from REPO_LIB exactly once per process and snapshot its globals."""
  global _boot
  if _boot is not None:
    return _boot
  sys.dont_write_bytecode = True
  limit_memory()
  if not os.path.isdir(os.path.join(REPO_LIB, 'carbon')):
    raise HarnessError('no carbon package under %s' % REPO_LIB)
  sys.path.insert(0, REPO_LIB)
  # The installed txAMQP is python-2 syntax: importing it raises SyntaxError, which
  # carbon.service does not catch.  None in sys.modules makes the import raise
  # ImportError, i.e. exactly the "txamqp not installed" path of service.py.
  sys.modules['txamqp'] = None
  if stub_backends:
    sys.modules['whisper'] = _stub_whisper()
    sys.modules['ceres'] = _stub_ceres()

  b = Boot()
  b.tmp = tempfile.mkdtemp(prefix='carbon-verif-')
  atexit.register(shutil.rmtree, b.tmp, True)
  b.conf_dir = os.path.join(b.tmp, 'conf')
  os.makedirs(b.conf_dir)
  with open(os.path.join(b.conf_dir, 'storage-schemas.conf'), 'w') as f:
    f.write('[everything]\npattern = .*\nretentions = 60:1440\n')
  b.data_dir = os.path.join(b.tmp, 'storage', 'whisper')
  os.makedirs(b.data_dir)

  import carbon
  if not os.path.abspath(carbon.__file__).startswith(os.path.abspath(REPO_LIB)):
    raise HarnessError('carbon imported from %s, expected %s' % (carbon.__file__, REPO_LIB))
  from carbon.conf import settings
  settings['CONF_DIR'] = b.conf_dir
  settings['LOCAL_DATA_DIR'] = b.data_dir
  settings['STORAGE_DIR'] = os.path.join(b.tmp, 'storage')
  settings['CACHE_SIZE_HARD_MAX'] = float('inf')
  settings['CACHE_SIZE_LOW_WATERMARK'] = float('inf')
  settings['program'] = 'carbon-cache'
  settings['instance'] = 'a'
  settings['aggregation-rules'] = os.path.join(b.conf_dir, 'aggregation-rules.conf')
  settings['relay-rules'] = os.path.join(b.conf_dir, 'relay-rules.conf')
  settings['rewrite-rules'] = os.path.join(b.conf_dir, 'rewrite-rules.conf')
  settings['LOG_LISTENER_CONN_SUCCESS'] = False
  settings['LOG_CACHE_QUEUE_SORTS'] = False
  settings['ENABLE_TAGS'] = False

  from carbon import service  # noqa: wires state.events / state.instrumentation
  from carbon import state, events, instrumentation, cache, writer, protocols, client
  from carbon import regexlist, routers, hashing, util, storage, log
  from carbon.aggregator import buffers, rules, processor
  b.settings = settings
  b.state = state
  b.events = events
  b.instrumentation = instrumentation
  b.cache = cache
  b.writer = writer
  b.protocols = protocols
  b.client = client
  b.regexlist = regexlist
  b.routers = routers
  b.hashing = hashing
  b.util = util
  b.storage = storage
  b.service = service
  b.buffers = buffers
  b.rules = rules
  b.processor = processor
  b.log = log

  # record error events emitted through twisted's log (log.err / Event handler errors)
  from twisted.python import log as txlog
  b.log_errors = []
  b.log_msgs = []

  def observer(ev):
    if ev.get('isError'):
      b.log_errors.append(ev)
  txlog.addObserver(observer)
  try:
    # stop twisted from echoing unhandled-error events to stderr before logging "begins"
    from twisted.logger import globalLogBeginner
    globalLogBeginner.beginLoggingTo([], redirectStandardIO=False, discardBuffer=True)
  except Exception:
    pass

  b.event_names = ['metricReceived', 'metricGenerated', 'cacheOverflow', 'cacheFull',
                   'cacheSpaceAvailable', 'pauseReceivingMetrics', 'resumeReceivingMetrics']
  for n in b.event_names:
    if not hasattr(events, n):
      raise HarnessError('carbon.events.%s is gone' % n)
  b.snap_settings = dict(settings)
  b.snap_settings_attrs = dict(settings.__dict__)
  b.snap_handlers = {n: list(getattr(events, n).handlers) for n in b.event_names}
  _boot = b
  reset()
  return b



def reset(**overrides):
  """Restore every piece of carbon global state that cases mutate."""
  b = _boot
  if b is None:
    b = bootstrap()
  s = b.settings
  s.clear()
  s.update(b.snap_settings)
  s.__dict__.clear()
  s.__dict__.update(b.snap_settings_attrs)
  s.update(overrides)
  for n in b.event_names:
    getattr(b.events, n).handlers[:] = b.snap_handlers[n]
  st = b.state
  st.metricReceiversPaused = False
  st.cacheTooFull = False
  st.client_manager = None
  st.connectedMetricReceiverProtocols = set()
  st.pipeline_processors = []
  st.pipeline_processors_generated = []
  st.listeningPorts = []
  b.instrumentation.stats.clear()
  b.instrumentation.prior_stats.clear()
  b.cache._Cache = None
  b.buffers.BufferManager.buffers = {}
  b.rules.RuleManager.rules = []
  b.rules.RuleManager.rules_last_read = 0.0
  b.rules.RuleManager.rules_file = None
  for lst in (b.regexlist.WhiteList, b.regexlist.BlackList):
    lst.regex_list = []
    lst.rules_last_read = 0.0
    lst.list_file = None
  del b.log_errors[:]
  return b


class Recorder(object):
  """Observer appended to an event's handler list."""
  def __init__(self, event):
    self.event = event
    self.items = []
    event.handlers.append(self)

  def __call__(self, *args):
    self.items.append(args)

  def detach(self):
    if self in self.event.handlers:
      self.event.handlers.remove(self)


def need(obj, name):
  if not hasattr(obj, name):
    raise HarnessError('%r has no attribute %r (refactored?)' % (obj, name))
  return getattr(obj, name)
