"""In-memory TimeSeriesDatabase plugin (public plugin API) that logs every call with the
virtual time and consults a generated fault plan (DESIGN.md 2.4)."""
from . import env
import errno as _errno
import os

ERRNOS = {'eintr': _errno.EINTR, 'eagain': _errno.EAGAIN, 'enospc': _errno.ENOSPC}
FAULT_KINDS = ('ioerror', 'exception', 'eintr', 'eagain', 'enospc')


_cls = None


class BackendFault(Exception):
  pass


def ensure_registered():
  global _cls
  if _cls is not None:
    return _cls
  env.bootstrap()
  from carbon.database import TimeSeriesDatabase

  class MemDatabase(TimeSeriesDatabase):
    plugin_name = 'verifmem'
    aggregationMethods = ['average', 'sum', 'last', 'max', 'min']

    def __init__(self, settings=None):
      self.files = {}       # metric -> create args
      self.calls = []       # (index, kind, metric, payload, outcome, time)
      self.faults = {}      # call index -> 'ioerror' | 'exception'
      self.clock = lambda: 0.0
      self.on_call = None

    def _call(self, kind, metric, payload=None):
      idx = len(self.calls)
      fault = self.faults.get(idx)
      rec = [idx, kind, metric, payload, fault or 'ok', self.clock()]
      self.calls.append(rec)
      if self.on_call is not None:
        self.on_call(rec)
      if fault in ERRNOS:
        # transient-looking and permanent errno values alike: the call failed, nothing was written
        raise OSError(ERRNOS[fault], os.strerror(ERRNOS[fault]) + ' (injected)')
      if fault == 'ioerror':
        # the same text every time, as a backend that stays down produces (EIO from the same device)
        raise IOError(5, 'Input/output error (injected)')
      if fault == 'exception':
        raise BackendFault('backend unavailable (injected)')
      return rec

    def exists(self, metric):
      rec = self._call('exists', metric)
      res = metric in self.files
      rec[4] = res
      return res

    def create(self, metric, retentions, xfilesfactor, aggregation_method):
      self._call('create', metric, [list(map(tuple, retentions)) if retentions is not None else None,
                                    xfilesfactor, aggregation_method])
      self.files[metric] = (retentions, xfilesfactor, aggregation_method)

    def write(self, metric, datapoints):
      pts = [tuple(p) for p in datapoints]
      self._call('write', metric, pts)

    def getMetadata(self, metric, key):
      return None

    def setMetadata(self, metric, key, value):
      return None

    def getFilesystemPath(self, metric):
      return None

    def validateArchiveList(self, archiveList):
      if not archiveList:
        raise ValueError('empty archive list')

    def tag(self, *metrics):
      self._call('tag', list(metrics))

  _cls = MemDatabase
  return _cls


def new_db():
  return ensure_registered()(None)
