"""Linearizability search for two-thread histories against a sequential specification.

History: per thread a list of *groups*; a group is a list of sub-operations that share
one invocation/response interval (a plain operation is a group of one; a bulk query is a
group of independent per-metric reads that may take effect in any order inside the
interval).  Sub-operation = dict(op=..., args=..., result=..., inv=int, resp=int).

spec(state, subop) -> new_state or None (None = this result is impossible in this state)
States must be hashable.  The search is exact (no false alarms): it explores every merge of
the threads' sequences that respects real-time precedence (a.resp < b.inv  =>  a before b).
"""


def linearizable(threads, spec, init, final_check=None):
  """threads: list (any number) of lists of groups.  Returns (ok, witness_or_None)."""
  n = len(threads)
  seen = set()
  order = []

  def earliest_pending_resp(pos, skip):
    """min response stamp among the *next* pending groups of the other threads."""
    m = None
    for k in range(n):
      if k == skip:
        continue
      i, done = pos[k]
      if i < len(threads[k]):
        r = threads[k][i][0]['resp']
        if m is None or r < m:
          m = r
    return m

  def rec(pos, state):
    key = (pos, state)
    if key in seen:
      return False
    seen.add(key)
    if all(pos[k][0] >= len(threads[k]) for k in range(n)):
      if final_check is None or final_check(state):
        return True
      return False
    for k in range(n):
      i, done = pos[k]
      if i >= len(threads[k]):
        continue
      group = threads[k][i]
      inv = group[0]['inv']
      # real-time precedence: no other thread's next pending group may have responded
      # before this group was invoked (per-thread sequences are ordered, so checking the
      # next pending group of each other thread suffices).
      m = earliest_pending_resp(pos, k)
      if m is not None and m < inv:
        continue
      for j, sub in enumerate(group):
        if j in done:
          continue
        ns = spec(state, sub)
        if ns is None:
          continue
        nd = done | frozenset([j])
        if len(nd) == len(group):
          npos = pos[:k] + ((i + 1, frozenset()),) + pos[k + 1:]
        else:
          npos = pos[:k] + ((i, nd),) + pos[k + 1:]
        order.append((k, i, j))
        if rec(npos, ns):
          return True
        order.pop()
    return False

  import sys
  old = sys.getrecursionlimit()
  sys.setrecursionlimit(max(old, 10000))
  try:
    ok = rec(tuple((0, frozenset()) for _ in range(n)), init)
  finally:
    sys.setrecursionlimit(old)
  return ok, (list(order) if ok else None)
