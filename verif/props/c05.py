"""C05 - hash routing returns a well-formed replica set for every metric."""
import itertools

from hypothesis import strategies as st

from .. import env, gen
from ..core import HarnessError
from ..hyp import run_given
from ..ref import ring as refring

LEVEL = 'exploration'
RULE = ('Destination sets of 1-8 (server, port, instance) triples with distinct (server, instance) (1-3 instances per '
        'server, instance None allowed, instance names shared across servers), REPLICATION_FACTOR 1-4, DIVERSE_REPLICAS '
        'on/off, ConsistentHashingRouter and FastHashingRouter with carbon_ch and fnv1a_ch (also reached through the '
        'aggregated variants with an empty rule set); keys: a real metric name for each of the 65536 ring positions '
        '(exhaustive) for some configurations, the boundary positions p-1/p/p+1 of every ring entry plus random '
        '(incl. non-ASCII) names for the others. Validity oracle: len == min(RF, eligible) (eligible = destinations, or '
        'distinct servers when diverse), every element a configured triple with its configured port, no repeats, '
        'diverse => distinct servers, and the same ordered list on repeated calls and after unrelated look-ups. '
        'Non-trivial = configuration with >=2 instances on one server, or RF > servers, or a single destination; '
        'distinct by hash of (config, router, hash type).')
ASSUMPTIONS = [
  "FastHashingRouter's default mmh3_ch is not covered: the mmh3 library is not installed",
  'the router precondition (distinct (server, instance) pairs; addDestination raises otherwise) is respected',
]
SIGNATURES = ()

SERVERS = ['10.0.0.1', '10.0.0.2', 'carbon-3.example.com', '::1', 'h4', 'h5', 'h6', 'h7']
INSTANCES = [None, 'a', 'b', 'c', '1', 'cache-0']


@st.composite
def configs(draw, exhaustive=False):
  nserv = draw(st.integers(1, 5))
  servers = draw(st.lists(st.sampled_from(SERVERS), min_size=nserv, max_size=nserv, unique=True))
  dests = []
  used = set()
  for s in servers:
    for inst in draw(st.lists(st.sampled_from(INSTANCES), min_size=1, max_size=3, unique=True)):
      if len(dests) < 8 and (s, inst) not in used:
        used.add((s, inst))
        dests.append([s, draw(st.sampled_from([2004, 2004, 2104, 2204, 12004])), inst])
  dests = draw(st.permutations(dests))
  # membership history before the look-ups: extra destinations that join and leave again, and destinations that
  # leave and rejoin (what DYNAMIC_ROUTER does); the property speaks about the set configured afterwards
  extras = []
  for _ in range(draw(st.integers(0, 2))):
    # often another instance on a server that stays configured (its departure must not count the server out)
    e = (draw(st.sampled_from(servers + servers + SERVERS + ['gone-1', 'gone-2'])), draw(st.sampled_from(INSTANCES + ['x9'])))
    if e not in used and e not in [(x[0], x[2]) for x in extras]:
      extras.append([e[0], 2004, e[1]])
  bounce = draw(st.lists(st.integers(0, len(dests) - 1), unique=True, max_size=2)) if len(dests) > 1 else []
  return {
    'extras': extras, 'bounce': bounce,
    'bounce_old_ports': {str(i): draw(st.sampled_from([2004, 2104, 2304])) for i in bounce if draw(st.booleans())},
    # destinations that REPLACED another one after traffic had been routed (one leaves, a different one joins, no
    # look-up in between, same count): index -> the triple that was configured there before
    'swapped_in': ({str(draw(st.integers(0, len(dests) - 1))): [draw(st.sampled_from(['old-1', 'old-2', '10.0.0.9'])), 2004,
                                                                draw(st.sampled_from(['a', 'z', None]))]}
                   if draw(st.integers(0, 2)) == 0 else {}),
    'dests': [list(d) for d in dests],
    'rf': draw(st.integers(1, 4)),
    'diverse': draw(st.booleans()),
    'router': draw(st.sampled_from(['consistent-hashing', 'consistent-hashing', 'fast-hashing',
                                    'aggregated-consistent-hashing', 'fast-aggregated-hashing'])),
    'hash': draw(st.sampled_from(['carbon_ch', 'fnv1a_ch'])),
    'keys': 'all' if exhaustive else 'boundary',
    'names': draw(st.lists(gen.metric_names(max_tokens=5), max_size=60)),
  }


_collisions = {}


def colliding_pairs(hash_type):
  """(server, instance) pairs whose str() hash to the same 16-bit position (FastHashRing orders nodes by
  that hash): found by brute force over a pool of plausible names, through the reference hash."""
  if hash_type in _collisions:
    return _collisions[hash_type]
  seen = {}
  pairs = []
  for i in range(700):
    for inst in ('a', 'b', None):
      node = ('cache%d' % i, inst)
      p = refring.position(refring.node_repr(node), hash_type)
      if p in seen and seen[p][0] != node[0]:
        pairs.append((seen[p], node))
      seen.setdefault(p, node)
  _collisions[hash_type] = pairs[:40]
  return _collisions[hash_type]


@st.composite
def collision_configs(draw):
  hash_type = draw(st.sampled_from(['carbon_ch', 'fnv1a_ch']))
  a, b = draw(st.sampled_from(colliding_pairs(hash_type)))
  nodes = [a, b]
  for _ in range(draw(st.integers(0, 3))):
    n = (draw(st.sampled_from(SERVERS)), draw(st.sampled_from(INSTANCES)))
    if n not in nodes:
      nodes.append(n)
  nodes = draw(st.permutations(nodes))
  return {'dests': [[n[0], 2004, n[1]] for n in nodes], 'rf': draw(st.integers(1, 4)), 'diverse': draw(st.booleans()),
          'router': draw(st.sampled_from(['fast-hashing', 'fast-hashing', 'fast-aggregated-hashing', 'consistent-hashing'])),
          'hash': hash_type, 'keys': 'boundary', 'names': draw(st.lists(gen.metric_names(max_tokens=5), max_size=40)),
          'collision': True}


class FakeSettings(dict):
  __getattr__ = dict.__getitem__


def as_configured(text):
  """A string the way a daemon gets it from carbon.conf: built at run time, equal to but not the same object as
  any literal in the code under test."""
  return text.encode('utf-8').decode('utf-8') if isinstance(text, str) else text


def build_router(b, case):
  settings = FakeSettings(REPLICATION_FACTOR=case['rf'], DIVERSE_REPLICAS=case['diverse'],
                          ROUTER_HASH_TYPE=as_configured(case['hash']))
  settings['aggregation-rules'] = None
  cls = env.need(b.routers.DatapointRouter, 'plugins').get(case['router'])
  if cls is None:
    raise HarnessError('router plugin %r is gone' % case['router'])
  router = cls(settings)
  extras = [tuple(d) for d in case.get('extras', [])]
  for d in extras[:1]:
    router.addDestination(d)
  old_ports0 = case.get('bounce_old_ports') or {}
  swapped = dict((int(k), tuple(v)) for k, v in (case.get('swapped_in') or {}).items()
                 if (v[0], v[2]) not in [(x[0], x[2]) for x in case['dests']] and int(k) not in case.get('bounce', []))
  for i, d in enumerate(case['dests']):
    if i in swapped:
      router.addDestination(swapped[i])          # the destination that will be replaced by d later
      continue
    router.addDestination((d[0], old_ports0.get(str(i), d[1]) if i in case.get('bounce', []) else d[1], d[2]))
  for d in extras[1:]:
    router.addDestination(d)
  if extras or case.get('bounce') or swapped:
    # traffic before the membership changes (whatever the router memoises per node is filled by now)
    for key in ('a.b', 'servers.web01.cpu', 'x', 'carbon.agents.h.metricsReceived', 'm.1', 'm.2', 'm.3', 'm.4'):
      list(router.getDestinations(key))
  for i, old in swapped.items():
    router.removeDestination(old)
    router.addDestination(tuple(case['dests'][i]))
  for d in extras:
    router.removeDestination(d)
  old_ports = case.get('bounce_old_ports') or {}
  for i in case.get('bounce', []):
    d = case['dests'][i]
    router.removeDestination((d[0], old_ports.get(str(i), d[1]), d[2]))
  for i in case.get('bounce', []):
    # an instance that comes back may listen on another port: case['dests'] holds what is configured in the end
    router.addDestination(tuple(case['dests'][i]))
  return router


def keys_for(case, router):
  table = refring.keys_for_all_positions(case['hash'])
  if case['keys'] == 'all':
    return table
  ringobj = getattr(getattr(router, 'hash_router', router), 'ring', None)
  pts = set([0, 1, 65534, 65535])
  entries = getattr(ringobj, 'ring', None)
  if entries:
    for e in entries:
      for p in (e[0] - 1, e[0], e[0] + 1):
        pts.add(p % 65536)
  else:
    pts.update(range(0, 65536, 97))
  return [table[p] for p in sorted(pts)]


def check_key(ctx, case, router, key, dests, ports, nservers):
  try:
    L = list(router.getDestinations(key))
  except Exception as e:  # noqa
    ctx.fail('C05:getDestinations-raised:%s' % type(e).__name__, 'getDestinations(%r) raised %r' % (key, e), dict(case, key=key))
    return False
  eligible = nservers if case['diverse'] else len(dests)
  want = min(case['rf'], eligible)
  aggregated = 'aggregated' in case['router']
  c = dict(case, key=key, names=[])
  for d in L:
    if tuple(d) not in dests:
      ctx.fail('C05:unconfigured-destination', 'key %r -> %r which is not a configured destination (configured %r)' % (
        key, d, sorted(dests, key=repr)), c, 'configured')
      return False
  if len(set(L)) != len(L):
    sig = 'C05:single-node-duplicate' if len(dests) == 1 else 'C05:repeated-destination'
    ctx.fail(sig, 'key %r -> %r contains a destination twice (RF=%d diverse=%s %d destinations)' % (
      key, L, case['rf'], case['diverse'], len(dests)), c, 'no-repeats')
    return False
  if len(L) != want:
    ctx.fail('C05:wrong-replica-count', 'key %r -> %d destinations %r, expected min(RF=%d, eligible=%d)' % (
      key, len(L), L, case['rf'], eligible), c, 'count')
    return False
  if case['diverse'] and len(set(d[0] for d in L)) != len(L):
    ctx.fail('C05:replicas-share-server', 'key %r -> %r shares a server although DIVERSE_REPLICAS is on' % (key, L), c, 'diverse')
    return False
  return L


def execute(ctx, case):
  b = env.bootstrap()
  env.reset()
  try:
    router = build_router(b, case)
  except HarnessError:
    raise
  except Exception as e:  # noqa
    ctx.fail('C05:router-construction-raised:%s' % type(e).__name__, 'configuring %r raised %r' % (case['dests'], e), dict(case, names=[]))
    return
  dests = set(tuple(d) for d in case['dests'])
  nservers = len(set(d[0] for d in dests))
  keys = list(keys_for(case, router)) + list(case['names'])
  if 'key' in case:
    keys = [case['key']]
  first = {}
  aggregated = 'aggregated' in case['router']
  for k in keys:
    L = check_key(ctx, case, router, k, dests, nservers, nservers)
    if L is False:
      return
    first[k] = L
  # determinism: same ordered list again, after all the other look-ups
  for k in keys[::7] + keys[-3:]:
    try:
      again = list(router.getDestinations(k))
    except Exception as e:  # noqa
      ctx.fail('C05:getDestinations-raised:%s' % type(e).__name__, 'second getDestinations(%r) raised %r' % (k, e), dict(case, key=k))
      return
    same = (set(again) == set(first[k])) if aggregated else (again == first[k])
    if not same:
      ctx.fail('C05:unstable-result', 'key %r -> %r first, %r later with the destination set unchanged' % (k, first[k], again),
               dict(case, key=k, names=[]), 'determinism')
      return
  # two look-ups alive at the same time (a lazy pipeline, zip(), two threads each iterating its own): each still
  # gets its own well-formed list
  ks = [k for k in list(first)[:40]]
  for k1, k2 in zip(ks[::2], ks[1::2]):
    try:
      g1, g2 = router.getDestinations(k1), router.getDestinations(k2)
      l1, l2 = [], []
      for a_, b_ in itertools.zip_longest(g1, g2):
        if a_ is not None:
          l1.append(tuple(a_))
        if b_ is not None:
          l2.append(tuple(b_))
    except Exception as e:  # noqa
      ctx.fail('C05:getDestinations-raised:%s' % type(e).__name__, 'interleaved look-ups of %r and %r raised %r' % (k1, k2, e), dict(case, key=k1, names=[]))
      return
    if l1 != first[k1] or l2 != first[k2]:
      ctx.fail('C05:unstable-result', 'look-ups of %r and %r consumed alternately give %r / %r, one at a time %r / %r' % (
        k1, k2, l1, l2, first[k1], first[k2]), dict(case, key=k1, names=[]), 'determinism')
      return
  ctx.evaluations += len(keys) - 1
  per_server = {}
  for d in dests:
    per_server[d[0]] = per_server.get(d[0], 0) + 1
  nt = max(per_server.values()) >= 2 or case['rf'] > nservers or len(dests) == 1
  classes = [case['router'], case['hash'], 'diverse' if case['diverse'] else 'not-diverse', 'rf=%d' % case['rf'],
             'keys=' + case['keys']]
  if len(dests) == 1:
    classes.append('single destination')
  if max(per_server.values()) >= 2:
    classes.append('several instances on one server')
  if case['rf'] > nservers:
    classes.append('rf > servers')
  if case.get('collision'):
    classes.append('two nodes with colliding node hashes')
  if case.get('extras') or case.get('bounce') or case.get('swapped_in'):
    classes.append('membership changed before the look-ups')
  if case.get('swapped_in'):
    classes.append('one destination replaced by another (same count, no look-up in between)')
  if any(e[0] in per_server for e in case.get('extras', [])):
    classes.append('an instance left a server that stays configured')
  ctx.note(dict(case, names=case['names'][:3]), nontrivial=nt, classes=classes,
           key=[case['dests'], case['rf'], case['diverse'], case['router'], case['hash'], case['keys']])


def run(ctx):
  refring.selfcheck()
  if ctx.quick:
    run_given(ctx, configs(exhaustive=True), execute, 6, salt=1)
    run_given(ctx, configs(), execute, 300, salt=2)
    run_given(ctx, collision_configs(), execute, 80, salt=3)
  else:
    run_given(ctx, configs(exhaustive=True), execute, 40, salt=1)
    run_given(ctx, configs(), execute, 1200, salt=2)
    run_given(ctx, collision_configs(), execute, 300, salt=3)
