"""C03 - the writer persists each drained datapoint exactly once or accounts for it."""
from hypothesis import strategies as st

from .. import cachesim, memdb, writersim
from ..hyp import run_given
from . import c02

LEVEL = 'fault_enumeration'
RULE = ('Workloads of 1-10 stores over <=4 metrics (unique values, some files pre-existing) issued by the receiving '
        'thread while the real writeForever() runs as the writer thread under a generated line-granular schedule, '
        'against an in-memory backend whose exists/create/write calls fail according to a generated fault plan '
        '(<=3 faults among the first 16 backend calls, IOError or arbitrary Exception); create limiting '
        '{off,1,60}/min and update limiting {off,1,50}/s on a virtual clock; all six strategies. Thorough adds every '
        'placement of <=2 faults over the first 12 backend calls for fixed workloads. Oracle over the backend call log, '
        'instrumentation counters and logged errors: every drained batch is written in exactly one write call for '
        'its own metric with exactly its datapoints after the file exists, or droppedCreates/errors/an error log '
        'entry accounts for it; no value written twice or under another metric or invented. Non-trivial = >=1 '
        'injected fault or create-limited drop, and >=1 preemption; distinct by hash of the case.')
ASSUMPTIONS = [
  'backend = in-memory TimeSeriesDatabase plugin (public plugin API); exists() never lies',
  'interleaving granularity is one source line of writer.py, cache.py, util.py, events.py',
  'a datapoint overwritten in the cache before being drained is not expected at the backend (last write wins, C02)',
]
SIGNATURES = ()

METRICS = ['a', 'b', '', 'c', 'd;env=prod']      # '' is a legal (and falsy) metric name; a tagged series goes through the tag queue


@st.composite
def cases(draw, strategy=None):
  strategy = strategy or draw(st.sampled_from(cachesim.STRATEGIES))
  counter = [-1]       # values are unique ids 0, 1, 2, ...: the first one is the falsy 0
  recv = []
  for _ in range(draw(st.integers(1, 10))):
    if draw(st.integers(0, 5)) == 0:
      recv.append(['wait', draw(st.sampled_from([0.05, 0.5, 1, 2]))])
    else:
      counter[0] += 1
      recv.append(['store', draw(st.sampled_from(METRICS)), draw(st.sampled_from([1, 2, 3, 1.25, 1.75, 2.5, 1000000.125, 1000000.875])), counter[0]])
  nfaults = draw(st.sampled_from([0, 1, 1, 2, 3]))
  faults = {}
  for _ in range(nfaults):
    faults[str(draw(st.integers(0, 15)))] = draw(st.sampled_from(['ioerror', 'exception', 'ioerror', 'exception', 'eintr', 'eagain', 'enospc']))
  return {
    'strategy': strategy, 'lag': 0, 'recv': recv,
    'creates_per_minute': draw(st.sampled_from([None, None, 1, 60])),
    'updates_per_second': draw(st.sampled_from([None, None, 1, 50])),
    'precreated': draw(st.lists(st.sampled_from(METRICS), unique=True, max_size=3)),
    'faults': faults, 'switches': draw(c02.switch_lists(max_switches=12, max_gap=60)),
    'first': draw(st.integers(0, 1)), 'end_wait': draw(st.sampled_from([3, 70])),
  }


@st.composite
def pressure_cases(draw, strategy=None):
  """few metrics, many stores, create limiting on and dense preemptions: the same still-uncreated metric is
  drained more than once inside one writer pass."""
  strategy = strategy or draw(st.sampled_from(cachesim.STRATEGIES))
  counter = [-1]
  metrics = METRICS[:draw(st.integers(2, 3))]
  recv = []
  for _ in range(draw(st.integers(6, 14))):
    if draw(st.integers(0, 7)) == 0:
      recv.append(['wait', draw(st.sampled_from([0.05, 0.5]))])
    else:
      counter[0] += 1
      recv.append(['store', draw(st.sampled_from(metrics)), draw(st.sampled_from([1, 2, 3, 4, 5, 1.5])), counter[0]])
  switches = []
  pos = 0
  for _ in range(draw(st.integers(4, 25))):
    pos += draw(st.integers(1, 15))
    switches.append([pos, 1])
  nfaults = draw(st.sampled_from([0, 0, 1]))
  faults = {str(draw(st.integers(0, 10))): draw(st.sampled_from(['ioerror', 'exception', 'ioerror', 'exception', 'eintr', 'eagain', 'enospc'])) for _ in range(nfaults)}
  return {'strategy': strategy, 'lag': 0, 'recv': recv, 'creates_per_minute': draw(st.sampled_from([1, 1, 2])),
          'updates_per_second': draw(st.sampled_from([None, None, 50])),
          'precreated': draw(st.lists(st.sampled_from(metrics), unique=True, max_size=1)),
          'faults': faults, 'switches': switches, 'first': draw(st.integers(0, 1)), 'end_wait': draw(st.sampled_from([3, 70]))}


def judge(ctx, case, run, prefix='C03'):
  """Shared with C04: drained batches vs backend calls."""
  if run.aborted == 'deadlock':
    ctx.fail('%s:deadlock' % prefix, 'writer and receiver deadlocked', case)
    return None
  if run.recv_exc is not None:
    ctx.fail('%s:store-raised' % prefix, 'store raised %r' % (run.recv_exc,), case)
    return None
  if run.writer_exc is not None:
    ctx.fail('%s:writer-thread-died:%s' % (prefix, type(run.writer_exc).__name__),
             'writeForever() raised %r: the writer thread is gone' % (run.writer_exc,), case)
    return None
  stored_vals = {}
  for m, t, v, _ in run.stores:
    stored_vals[v] = (m, t)
  drained_vals = {}
  wins = writersim.windows(run)
  # every write call anywhere in the log
  writes = [ev[1] for ev in run.events if ev[0] == 'call' and ev[1][1] == 'write']
  seen_written = {}
  for rec in writes:
    idx, kind, metric, payload, outcome, when = rec
    for t, v in payload:
      if v not in stored_vals:
        ctx.fail('%s:invented-datapoint' % prefix, 'write(%r, %r) contains a value never stored' % (metric, payload), case)
        return None
      if stored_vals[v] != (metric, t):
        ctx.fail('%s:wrong-metric' % prefix, 'value %r stored as %r was written as (%r, %r)' % (
          v, stored_vals[v], metric, t), case, 'own-metric')
        return None
      if v in seen_written:
        ctx.fail('%s:written-twice' % prefix, 'value %r of %r passed to the backend in two write calls (#%d and #%d)' % (
          v, metric, seen_written[v], idx), case, 'exactly-once')
        return None
      seen_written[v] = idx
  accounted = {'written': 0, 'dropped': 0, 'write-error': 0, 'exists-error': 0}
  for w in wins:
    metric, batch = w['metric'], w['batch']
    if not batch:
      continue
    for t, v in batch:
      if v in drained_vals:
        ctx.fail('%s:drained-twice' % prefix, 'value %r handed out by two drains' % (v,), case)
        return None
      drained_vals[v] = metric
    bd = dict(batch)
    calls = [ev[1] for ev in w['calls']]
    my_writes = [c for c in calls if c[1] == 'write' and any(v in [x[1] for x in batch] for _, v in c[3])]
    ok_writes = [c for c in my_writes if c[4] == 'ok']
    failed_writes = [c for c in my_writes if c[4] != 'ok']
    d_commit = w['after'][0] - w['snap'][0]
    d_dropped = w['after'][1] - w['snap'][1]
    d_errors = w['after'][2] - w['snap'][2]
    d_logerr = w['after'][4] - w['snap'][4]
    failed_creates = [c for c in calls if c[1] == 'create' and c[4] != 'ok']
    if len(my_writes) > 1:
      ctx.fail('%s:written-twice' % prefix, 'batch %r of %r reached the backend in %d write calls' % (
        batch, metric, len(my_writes)), case, 'exactly-once')
      return None
    if ok_writes:
      c = ok_writes[0]
      if c[2] != metric or dict(c[3]) != bd or len(c[3]) != len(bd):
        ctx.fail('%s:write-mismatch' % prefix, 'drained (%r, %r) but wrote (%r, %r)' % (metric, batch, c[2], c[3]),
                 case, 'one-write-call')
        return None
      # the file must exist when the write happens
      created_before = any(x[1] == 'create' and x[2] == metric and x[4] == 'ok' and x[0] < c[0]
                           for ev in run.events if ev[0] == 'call' for x in [ev[1]])
      if not (created_before or metric in case.get('precreated', ())):
        ctx.fail('%s:write-before-create' % prefix, 'write(%r) was issued although the file was never created' % metric,
                 case, 'file-exists')
        return None
      if d_commit != len(bd):
        ctx.fail('%s:committedPoints' % prefix, 'batch of %d written but committedPoints moved by %d' % (len(bd), d_commit), case)
        return None
      accounted['written'] += 1
      continue
    # not written successfully: must be visibly accounted for
    if failed_writes:
      if d_errors < len(failed_writes) + len(failed_creates) or d_logerr < 1:
        ctx.fail('%s:unreported-write-failure' % prefix,
                 'write(%r) failed but errors moved by %d (failed creates in the same window: %d), log errors %d' % (
                   metric, d_errors, len(failed_creates), d_logerr), case, 'accounted')
        return None
      accounted['write-error'] += 1
      continue
    gate = [c for c in calls if c[1] == 'exists' and c[2] == metric]
    if gate and gate[0][4] not in (True, False):
      if d_logerr < 1:
        ctx.fail('%s:unreported-exists-failure' % prefix, 'exists(%r) raised after the drain and nothing was logged' % metric, case)
        return None
      accounted['exists-error'] += 1
      continue
    if d_dropped >= 1:
      accounted['dropped'] += 1
      continue
    if d_logerr >= 1 and d_errors + d_logerr > len(failed_creates):
      accounted['exists-error'] += 1
      continue
    ctx.fail('%s:silently-discarded' % prefix,
             'batch %r of %r was drained but neither written nor counted (droppedCreates +%d, errors +%d, log errors +%d; '
             'backend calls in the window: %r)' % (batch, metric, d_dropped, d_errors, d_logerr,
                                                  [(c[1], c[2], c[4]) for c in calls]), case, 'accounted')
    return None
  # conservation: the surviving value of every (metric, timestamp) is in the cache or was drained
  last = {}
  for m, t, v, _ in run.stores:
    last[(m, t)] = v
  for (m, t), v in last.items():
    in_cache = run.final.get(m, {}).get(t) == v
    if not in_cache and v not in drained_vals:
      ctx.fail('%s:lost-before-drain' % prefix, 'value %r for (%r, %r) is neither cached nor was it drained' % (v, m, t), case)
      return None
  return accounted


def execute(ctx, case):
  run = writersim.run_case(case)
  if run.aborted == 'step-limit':
    if run.recv_exc is not None:
      ctx.fail('C03:receiving-side-raised', 'the receiving thread died with %r and the writer never stopped' % (run.recv_exc,), case)
      return
    ctx.count('inconclusive: step limit')
    return
  acc = judge(ctx, case, run)
  if acc is None:
    return
  nfaults_hit = sum(1 for ev in run.events if ev[0] == 'call' and ev[1][4] in memdb.FAULT_KINDS)
  classes = [case['strategy']]
  for ev in run.events:
    if ev[0] == 'call' and ev[1][4] in memdb.FAULT_KINDS:
      classes.append('fault:%s:%s' % (ev[1][1], ev[1][4]))
  for k, v in acc.items():
    if v:
      classes.append('batch ' + k)
  if case['creates_per_minute']:
    classes.append('create-limited')
  if case['updates_per_second']:
    classes.append('update-limited')
  ctx.note(case, nontrivial=(nfaults_hit > 0 or acc['dropped'] > 0) and run.preemptions > 0, classes=classes)


FIXED = [
  [['store', 'a', 1, 1], ['store', 'b', 1, 2], ['store', 'a', 2, 3], ['wait', 0.5], ['store', 'c', 1, 4]],
  [['store', 'a', 1, 1], ['store', 'a', 1, 2], ['store', 'b', 1, 3], ['wait', 2], ['store', 'b', 2, 4], ['store', 'a', 3, 5]],
]


def run(ctx):
  n = 330 if ctx.quick else 1500
  for i, s in enumerate(cachesim.STRATEGIES):
    run_given(ctx, cases(s), execute, n, salt=70 + i)
    run_given(ctx, pressure_cases(s), execute, n // 3, salt=170 + i)
  if not ctx.quick:
    # exhaustive placement of <= 2 faults over the first 12 backend calls, fixed workloads
    import itertools
    jobs = []
    for wi, wl in enumerate(FIXED):
      for s in ('sorted', 'bucketmax', 'naive'):
        for pre in ([], ['a']):
          for cpm in (None, 1):
            jobs.append((wi, s, pre, cpm))
    total = 0
    for ji, (wi, s, pre, cpm) in enumerate(jobs):
      if ji % ctx.nshards != (ctx.shard or 0):
        continue
      base = {'strategy': s, 'lag': 0, 'recv': FIXED[wi], 'creates_per_minute': cpm, 'updates_per_second': None,
              'precreated': pre, 'switches': [], 'first': 0, 'end_wait': 3}
      plans = [{}]
      for i in range(12):
        for k in ('ioerror', 'exception'):
          plans.append({str(i): k})
      for i, j in itertools.combinations(range(12), 2):
        for k in ('ioerror', 'exception'):
          plans.append({str(i): k, str(j): k})
      for plan in plans:
        for sw in ([], [[25, 1], [60, 1]], [[40, 1], [41, 1], [90, 1]]):
          execute(ctx, dict(base, faults=plan, switches=sw))
          total += 1
    ctx.extra['fault_placements_enumerated'] = total
    ctx.exhaustive = None
