"""C19 - new metrics get the first matching storage schema and aggregation policy."""
import importlib
import itertools
import os

from hypothesis import strategies as st

from .. import env, memdb
from ..core import HarnessError
from ..hyp import run_given
from ..ref import rx

LEVEL = 'exploration'
RULE = ('storage-schemas.conf / storage-aggregation.conf with 1-6 sections in generated order (thorough: also every '
        'permutation of a base set): overlapping restricted-grammar patterns (re-free matcher), sections missing pattern or '
        'retentions, multi-archive retentions p:n with every unit suffix on either side and plain-second forms, '
        'xFilesFactor in [0,1] or absent, aggregationMethod from the plugin list or absent, key capitalisation varied; '
        'metric names matching 0, 1 or several sections. Files are loaded through writer.reloadStorageSchemas()/'
        'reloadAggregationSchemas(); a store of each new metric followed by one writeCachedDataPoints() pass produces '
        'the create call on the in-memory backend. Oracle: create(metric, retentions, xff, method) equals the evaluator '
        'written from the documented file format (first section in file order whose pattern is found in the name; units '
        's/m/h/d/w/y; duration // precision; defaults [(60, 10080)] and (None, None); incomplete sections ignored). '
        'Non-trivial = name matching >= 2 sections, or an incomplete section preceding the winner; distinct by hash of the case.')
ASSUMPTIONS = [
  'backend validation of archive lists (whisper.validateArchiveList) is not modelled: the in-memory plugin accepts every non-empty list',
  'only well-formed retention strings are generated (a malformed one makes the daemon exit at start-up, which is documented)',
]
SIGNATURES = ()

UNITS = {'s': 1, 'm': 60, 'h': 3600, 'd': 86400, 'w': 604800, 'y': 31536000}
METHODS = ['average', 'sum', 'last', 'max', 'min']


@st.composite
def retention(draw):
  """-> (text, (seconds_per_point, points)) computed independently."""
  pu = draw(st.sampled_from(['', 's', 'm', 'h', 'd', 'w', 'y']))
  pn = draw(st.integers(1, 90 if pu in ('', 's', 'm') else 3))
  precision = pn * UNITS.get(pu or 's')
  ptext = '%d%s' % (pn, pu)
  if draw(st.booleans()):
    n = draw(st.integers(1, 100000))
    return '%s:%d' % (ptext, n), (precision, n)
  du = draw(st.sampled_from(['s', 'm', 'h', 'd', 'w', 'y']))
  dn = draw(st.integers(1, 400 if du in ('s', 'm') else 30))
  duration = dn * UNITS[du]
  return '%s:%d%s' % (ptext, dn, du), (precision, duration // precision)


@st.composite
def schema_sections(draw):
  secs = []
  secnames = draw(st.permutations(['alpha', 'bravo', 'Charlie', 'delta', 'echo', 'zulu', 'carbon', '10', '2']))
  for i in range(draw(st.integers(1, 6))):
    kind = draw(st.sampled_from(['full', 'full', 'full', 'full', 'no-pattern', 'no-retentions', 'empty-pattern']))
    p = draw(rx.patterns())
    rets = draw(st.lists(retention(), min_size=1, max_size=3))
    secs.append({'name': secnames[i], 'kind': kind, 'pattern': p, 'rets': [r[0] for r in rets],
                 'archives': [list(r[1]) for r in rets],
                 'caps': draw(st.sampled_from(['lower', 'lower', 'upper', 'title'])),
                 'ret_sep': draw(st.sampled_from([',', ', ', ' , ']))})
  return secs


@st.composite
def agg_sections(draw):
  secs = []
  secnames = draw(st.permutations(['alpha', 'bravo', 'Charlie', 'delta', 'echo', 'zulu', 'min', '10', '2']))
  for i in range(draw(st.integers(0, 5))):
    kind = draw(st.sampled_from(['full', 'full', 'full', 'no-pattern', 'only-xff', 'only-method', 'pattern-only']))
    p = draw(rx.patterns())
    xff = draw(st.sampled_from(['0', '0.0', '0.5', '1', '1.0', '0.25', '.1']))
    secs.append({'name': secnames[i], 'kind': kind, 'pattern': p, 'xff': xff, 'method': draw(st.sampled_from(METHODS)),
                 'caps': draw(st.sampled_from(['lower', 'mixed', 'upper']))})
  return secs


@st.composite
def cases(draw):
  schemas = draw(schema_sections())
  aggs = draw(agg_sections())
  pats = [s['pattern'] for s in schemas] + [a['pattern'] for a in aggs]
  names = draw(st.lists(rx.names_for(pats), min_size=1, max_size=10, unique=True))
  names = [n for n in names if n and ';' not in n]
  # tagged series are matched by their full name as received (name;tag=value)
  names = [n + draw(st.sampled_from(['', '', '', ';env=prod', ';b=1;a=2', ';rollup=sum'])) for n in names]
  names = list(dict.fromkeys(names))
  return {'schemas': schemas, 'aggs': aggs, 'names': names or ['a.b'], 'agg_file_missing': draw(st.integers(0, 7)) == 0,
          'mtime': draw(st.sampled_from([None, None, 1500000000, 1400000000, 1500000000, 1600000000]))}


def cap(word, how):
  return {'lower': word.lower(), 'upper': word.upper(), 'title': word.title(), 'mixed': word[0].lower() + word[1:]}[how]


def render_schemas(secs):
  out = []
  for s in secs:
    out.append('[%s]' % s['name'])
    if s['kind'] not in ('no-pattern',):
      out.append('%s = %s' % (cap('pattern', s['caps']), '' if s['kind'] == 'empty-pattern' else s['pattern']['text']))
    if s['kind'] != 'no-retentions':
      out.append('%s = %s' % (cap('retentions', s['caps']), s['ret_sep'].join(s['rets'])))
    out.append('')
  return '\n'.join(out) + '\n'


def render_aggs(secs):
  out = []
  for a in secs:
    out.append('[%s]' % a['name'])
    if a['kind'] != 'no-pattern':
      out.append('pattern = %s' % a['pattern']['text'])
    if a['kind'] in ('full', 'no-pattern', 'only-xff'):
      out.append('%s = %s' % ({'lower': 'xfilesfactor', 'mixed': 'xFilesFactor', 'upper': 'XFILESFACTOR'}[a['caps']], a['xff']))
    if a['kind'] in ('full', 'no-pattern', 'only-method'):
      out.append('%s = %s' % ({'lower': 'aggregationmethod', 'mixed': 'aggregationMethod', 'upper': 'AGGREGATIONMETHOD'}[a['caps']], a['method']))
    out.append('')
  return '\n'.join(out) + '\n'


def expected(case, name):
  retentions = [(60, 10080)]
  skipped_before = False
  nmatch = 0
  winner_after_skipped = False
  found = False
  for s in case['schemas']:
    if s['kind'] != 'full':
      skipped_before = True
      continue
    if rx.matches(s['pattern'], name):
      nmatch += 1
      if not found:
        found = True
        retentions = [tuple(a) for a in s['archives']]
        winner_after_skipped = skipped_before
  xff, method = None, None
  if not case.get('agg_file_missing'):
    for a in case['aggs']:
      if a['kind'] == 'no-pattern':
        continue
      if rx.matches(a['pattern'], name):
        if a['kind'] in ('full', 'only-xff'):
          xff = float(a['xff'])
        if a['kind'] in ('full', 'only-method'):
          method = a['method']
        break
  return retentions, xff, method, nmatch, winner_after_skipped


_prepared = {}


def prepare(b):
  if 'writer' in _prepared:
    return _prepared['writer']
  env.reset(MAX_UPDATES_PER_SECOND=float('inf'), MAX_CREATES_PER_MINUTE=float('inf'))
  w = importlib.reload(b.writer)
  for n in ('reloadStorageSchemas', 'reloadAggregationSchemas', 'writeCachedDataPoints'):
    env.need(w, n)
  _prepared['writer'] = w
  return w


def execute(ctx, case):
  b = env.bootstrap()
  w = prepare(b)
  env.reset(MAX_UPDATES_PER_SECOND=float('inf'), MAX_CREATES_PER_MINUTE=float('inf'), LOG_CREATES=False, LOG_UPDATES=False,
            ENABLE_TAGS=False)
  db = memdb.new_db()
  b.state.database = db
  sp = os.path.join(b.conf_dir, 'storage-schemas.conf')
  ap = os.path.join(b.conf_dir, 'storage-aggregation.conf')
  with open(sp, 'w') as f:
    f.write(render_schemas(case['schemas']))
  if case.get('agg_file_missing'):
    if os.path.exists(ap):
      os.unlink(ap)
  else:
    with open(ap, 'w') as f:
      f.write(render_aggs(case['aggs']))
  if case.get('mtime') is not None:
    # deployed with a preserved / older / identical modification time (cp -p, rsync -t, a roll-back): still the
    # files the next reload has to use
    for pth in (sp, ap):
      if os.path.exists(pth):
        os.utime(pth, (case['mtime'], case['mtime']))
  n_err = len(b.log_errors)
  try:
    w.reloadStorageSchemas()
    w.reloadAggregationSchemas()
  except BaseException as e:  # noqa (SystemExit included)
    ctx.fail('C19:reload-raised:%s' % type(e).__name__, 'reloading the schema files raised %r\n%s' % (e, render_schemas(case['schemas'])), case)
    return
  cache = b.cache.MetricCache()
  for i, name in enumerate(case['names']):
    cache.store(name, (1500000000 + i, float(i)))
  try:
    w.writeCachedDataPoints()
  except Exception as e:  # noqa
    ctx.fail('C19:writer-raised:%s' % type(e).__name__, 'writeCachedDataPoints raised %r' % (e,), case)
    return
  creates = {}
  for c in db.calls:
    if c[1] == 'create':
      if c[2] in creates:
        ctx.fail('C19:created-twice', 'metric %r created twice' % c[2], case)
        return
      creates[c[2]] = c[3]
  nt = False
  classes = set()
  for name in case['names']:
    rets, xff, method, nmatch, after_skipped = expected(case, name)
    got = creates.get(name)
    if got is None:
      ctx.fail('C19:not-created', 'new metric %r was not created (creates: %r)' % (name, sorted(creates)), case, 'create')
      return
    g_rets = [tuple(r) for r in (got[0] or [])]
    same_xff = (got[1] is None and xff is None) or (got[1] is not None and xff is not None and float(got[1]) == xff)
    if g_rets != rets or not same_xff or got[2] != method:
      ctx.fail('C19:wrong-create-arguments',
               'metric %r created with retentions=%r xff=%r method=%r; the first matching sections give retentions=%r xff=%r '
               'method=%r\n--- storage-schemas.conf\n%s--- storage-aggregation.conf%s\n%s' % (
                 name, g_rets, got[1], got[2], rets, xff, method, render_schemas(case['schemas']),
                 ' (missing)' if case.get('agg_file_missing') else '', render_aggs(case['aggs'])), dict(case, names=[name]), 'first-match')
      return
    if nmatch >= 2:
      nt = True
      classes.add('name matches >=2 sections')
    if after_skipped:
      nt = True
      classes.add('incomplete section precedes the winner')
    if nmatch == 0:
      classes.add('default schema')
  ctx.note(case, nontrivial=nt, classes=sorted(classes) + ['sections=%d' % len(case['schemas'])])


# ---- reload while the writer is creating (the 60 s reload task runs on the reactor thread) ------------------
@st.composite
def race_cases(draw):
  old = draw(cases())
  secs = [dict(s_) for s_ in old['schemas']]
  new_secs = draw(st.permutations(secs))
  if draw(st.booleans()) and len(new_secs) > 1:
    new_secs = new_secs[1:]
  if draw(st.booleans()):
    extra = draw(schema_sections())[0]
    extra['name'] = 'inserted'
    new_secs = [extra] + list(new_secs)
  new_secs = [dict(s_) for s_ in new_secs]
  for s_ in new_secs:
    if s_['kind'] == 'full' and draw(st.booleans()):
      r = draw(retention())
      s_['rets'], s_['archives'] = [r[0]], [list(r[1])]
  aggs = [dict(a) for a in old['aggs']]
  new_aggs = [dict(a) for a in draw(st.permutations(aggs))]
  for a in new_aggs:
    if draw(st.booleans()):
      a['xff'] = draw(st.sampled_from(['0', '0.5', '1', '0.25']))
      a['method'] = draw(st.sampled_from(METHODS))
  from . import c02
  return {'kind': 'reload-race', 'schemas': old['schemas'], 'aggs': old['aggs'], 'names': old['names'][:2],
          'new_schemas': new_secs, 'new_aggs': new_aggs, 'agg_file_missing': False,
          'switches': draw(c02.switch_lists(max_switches=6, max_gap=40)), 'first': draw(st.integers(0, 1))}


def execute_race(ctx, case):
  from ..sched import Sched
  b = env.bootstrap()
  w = prepare(b)
  env.reset(MAX_UPDATES_PER_SECOND=float('inf'), MAX_CREATES_PER_MINUTE=float('inf'), LOG_CREATES=False, LOG_UPDATES=False,
            ENABLE_TAGS=False)
  db = memdb.new_db()
  b.state.database = db
  sp = os.path.join(b.conf_dir, 'storage-schemas.conf')
  ap = os.path.join(b.conf_dir, 'storage-aggregation.conf')
  old = {'schemas': case['schemas'], 'aggs': case['aggs'], 'agg_file_missing': False}
  new = {'schemas': case['new_schemas'], 'aggs': case['new_aggs'], 'agg_file_missing': False}
  with open(sp, 'w') as f:
    f.write(render_schemas(old['schemas']))
  with open(ap, 'w') as f:
    f.write(render_aggs(old['aggs']))
  try:
    w.reloadStorageSchemas()
    w.reloadAggregationSchemas()
  except BaseException as e:  # noqa (SystemExit included)
    ctx.fail('C19:reload-raised:%s' % type(e).__name__, 'reloading the schema files raised %r\n%s' % (e, render_schemas(old['schemas'])), case)
    return
  cache = b.cache.MetricCache()
  for i, name in enumerate(case['names']):
    cache.store(name, (1500000000 + i, float(i)))
  with open(sp, 'w') as f:
    f.write(render_schemas(new['schemas']))
  with open(ap, 'w') as f:
    f.write(render_aggs(new['aggs']))
  # preemption points: every line of writer.py (the loaders themselves run atomically)
  sched = Sched(case['switches'], [w.__file__], max_steps=200000)
  errors = []

  reload_done = [None]
  create_step = {}

  exists_step = {}

  def on_call(rec):
    # the writer asks exists(metric) and only then looks the schemas up: a look-up that begins after both reloads
    # have completed sees the new lists
    if rec[1] == 'exists' and rec[2] not in create_step:
      exists_step[rec[2]] = sched.steps
    if rec[1] == 'create':
      create_step[rec[2]] = exists_step.get(rec[2], -1)
  db.on_call = on_call

  def reactor_thread():
    w.reloadStorageSchemas()
    w.reloadAggregationSchemas()
    reload_done[0] = sched.steps

  def writer_thread():
    try:
      w.writeCachedDataPoints()
    except Exception as e:  # noqa
      errors.append(e)
  sched.spawn('reactor', reactor_thread)
  sched.spawn('writer', writer_thread)
  sched.run(case.get('first', 0))
  if sched.aborted:
    ctx.count('inconclusive: %s' % sched.aborted)
    return
  if errors or sched.threads[0].exc is not None:
    e = errors[0] if errors else sched.threads[0].exc
    ctx.fail('C19:raised-during-reload:%s' % type(e).__name__, 'reload concurrent with the create loop: %r' % (e,), case, 'reload')
    return
  creates = {c[2]: c[3] for c in db.calls if c[1] == 'create'}
  for name in case['names']:
    got = creates.get(name)
    if got is None:
      ctx.fail('C19:not-created', 'new metric %r was not created while the schema files were being reloaded' % name, case)
      return
    eo = expected(old, name)
    en = expected(new, name)
    g_rets = [tuple(r) for r in (got[0] or [])]
    # a file whose create() call starts after both reloads have completed is created from the NEW lists
    after_reload = reload_done[0] is not None and create_step.get(name, -1) > reload_done[0]
    allowed = (en,) if after_reload else (eo, en)
    ok_rets = g_rets in [e[0] for e in allowed]

    def same(x, y):
      return (x is None and y is None) or (x is not None and y is not None and float(x) == float(y))
    ok_agg = any(same(got[1], e[1]) and got[2] == e[2] for e in allowed)
    if not (ok_rets and ok_agg):
      ctx.fail('C19:reload-race-wrong-create-arguments',
               'schema files reloaded while %r was being created%s: created with retentions=%r xff=%r method=%r, which is the '
               'first match in neither the old files (%r, %r, %r) nor the new ones (%r, %r, %r)' % (
                 name, ' (the writer turned to it after both reloads had completed: only the new files count)' if after_reload else '',
                 g_rets, got[1], got[2], eo[0], eo[1], eo[2], en[0], en[1], en[2]), case, 'reload')
      return
  ctx.note(case, nontrivial=len(sched.preemptions()) > 0 and any(expected(old, n)[0] != expected(new, n)[0] for n in case['names']),
           classes=['reload during create loop'])


_execute_plain = execute


def execute(ctx, case):  # noqa: dispatch on the case kind
  if case.get('history') == 'failed-create':
    return _execute_failed_create(ctx, case)
  if case.get('kind') == 'reload-race':
    return execute_race(ctx, case)
  return _execute_plain(ctx, case)


def execute_failed_create(ctx, case):
  case = dict(case, history='failed-create')
  return _execute_failed_create(ctx, case)


def _execute_failed_create(ctx, case):
  """History: create() fails for the new metrics (full disk), the schema files change and are reloaded, the metrics
  get datapoints again and the creates now succeed: the files are created from the lists loaded NOW."""
  b = env.bootstrap()
  w = prepare(b)
  env.reset(MAX_UPDATES_PER_SECOND=float('inf'), MAX_CREATES_PER_MINUTE=float('inf'), LOG_CREATES=False, LOG_UPDATES=False,
            ENABLE_TAGS=False)
  db = memdb.new_db()
  b.state.database = db
  sp = os.path.join(b.conf_dir, 'storage-schemas.conf')
  ap = os.path.join(b.conf_dir, 'storage-aggregation.conf')
  old = {'schemas': case['schemas'], 'aggs': case['aggs'], 'agg_file_missing': False}
  new = {'schemas': case['new_schemas'], 'aggs': case['new_aggs'], 'agg_file_missing': False}
  cache = b.cache.MetricCache()
  real_create = db.create
  try:
    for gi, gen_ in enumerate((old, new)):
      with open(sp, 'w') as f:
        f.write(render_schemas(gen_['schemas']))
      with open(ap, 'w') as f:
        f.write(render_aggs(gen_['aggs']))
      try:
        w.reloadStorageSchemas()
        w.reloadAggregationSchemas()
      except BaseException as e:  # noqa
        ctx.fail('C19:reload-raised:%s' % type(e).__name__, 'reloading the schema files raised %r' % (e,), case)
        return
      if gi == 0:
        # (while we are at it: the reload timer meets the file half-written, cut in the middle of a line; the reload
        # functions report that and keep the lists they have - they never raise into the timer that calls them)
        with open(sp, 'w') as f:
          f.write(render_schemas(gen_['schemas']) + '\n[half]\npattern = ^x\nretent')
        try:
          w.reloadStorageSchemas()
        except BaseException as e:  # noqa
          ctx.fail('C19:reload-raised:%s' % type(e).__name__, 'reloading a half-written storage-schemas.conf raised %r into the '
                   'reload timer (a LoopingCall stops for good after one exception)' % (e,), case)
          return
        with open(sp, 'w') as f:
          f.write(render_schemas(gen_['schemas']))
        w.reloadStorageSchemas()

        def failing_create(metric, *a, **kw):
          db._call('create', metric, ['refused'])
          raise IOError(28, 'No space left on device (injected)')
        db.create = failing_create
      else:
        db.create = real_create
      for i, name in enumerate(case['names']):
        cache.store(name, (1500000000 + 10 * gi + i, float(i)))
      try:
        w.writeCachedDataPoints()
      except Exception as e:  # noqa
        ctx.fail('C19:writer-raised:%s' % type(e).__name__, 'writeCachedDataPoints raised %r' % (e,), case)
        return
  finally:
    db.create = real_create
  creates = {c[2]: c[3] for c in db.calls if c[1] == 'create' and c[3] != ['refused']}
  for name in case['names']:
    got = creates.get(name)
    if got is None:
      ctx.fail('C19:not-created', 'metric %r was not created when its create() finally succeeded' % name, case)
      return
    en = expected(new, name)
    g_rets = [tuple(r) for r in (got[0] or [])]

    def same(x, y):
      return (x is None and y is None) or (x is not None and y is not None and float(x) == float(y))
    if g_rets != en[0] or not (same(got[1], en[1]) and got[2] == en[2]):
      ctx.fail('C19:wrong-create-arguments', 'create() of %r had failed, the schema files were replaced and reloaded, the retry '
               'created it with retentions=%r xff=%r method=%r; the files loaded now say (%r, %r, %r)' % (
                 name, g_rets, got[1], got[2], en[0], en[1], en[2]), dict(case, names=[name]), 'first-match')
      return
  ctx.note(case, nontrivial=any(expected(old, n) != expected(new, n) for n in case['names']),
           classes=['create failed, files reloaded, create retried'])


def execute_race_all_placements(ctx, case):
  """for one pair of file generations: the reload lands at EVERY line of the writer's pass (one preemption,
  writer first), instead of at a few random ones."""
  for k in range(1, 16 + 14 * len(case['names'])):
    execute_race(ctx, dict(case, switches=[[k, 1]], first=1))


def directed_race_cases():
  """the specific section moves in front of (or behind) one the writer's rule search has already passed: whatever the
  search then lands on, the file must be created from the first match of the old or of the new list"""
  def sec(name, kind, arg, rets, archives):
    return {'name': name, 'kind': 'full', 'pattern': rx.make(kind, arg), 'rets': rets, 'archives': archives, 'caps': 'lower', 'ret_sep': ','}
  carbon = sec('s0', 'prefix', 'carbon', ['60:90d'], [[60, 129600]])
  load = sec('s3', 'suffix', 'load', ['1h:1y'], [[3600, 8760]])
  rest = sec('s4', 'anything', '', ['5m:2w'], [[300, 4032]])
  out = []
  for old, new in (([load, carbon, rest], [carbon, load, rest]), ([carbon, load, rest], [load, carbon, rest]),
                   ([load, carbon, rest], [carbon, rest]), ([carbon, rest], [load, carbon, rest])):
    for names in (['carbon.agents.x', 'servers.db.load'], ['servers.db.load', 'carbon.agents.x']):
      out.append({'kind': 'reload-race', 'schemas': old, 'aggs': [], 'names': names, 'new_schemas': new, 'new_aggs': [],
                  'agg_file_missing': False, 'switches': [], 'first': 1})
  return out


def run(ctx):
  for case in directed_race_cases():
    for k in range(1, 140):
      execute_race(ctx, dict(case, switches=[[k, 1]], first=1))
  run_given(ctx, cases(), execute, ctx.scale(500, 4000), salt=1)
  run_given(ctx, race_cases(), execute, ctx.scale(120, 1500), salt=2)
  run_given(ctx, race_cases(), execute_race_all_placements, ctx.scale(30, 300), salt=3)
  run_given(ctx, race_cases(), execute_failed_create, ctx.scale(80, 600), salt=4)
  if not ctx.quick:
    # every permutation of a base set of overlapping sections
    base = [
      {'name': 's0', 'kind': 'full', 'pattern': rx.make('prefix', 'carbon'), 'rets': ['60:90d'], 'archives': [[60, 129600]], 'caps': 'lower', 'ret_sep': ','},
      {'name': 's1', 'kind': 'full', 'pattern': rx.make('lit', 'cpu'), 'rets': ['10s:6h', '1m:7d'], 'archives': [[10, 2160], [60, 10080]], 'caps': 'upper', 'ret_sep': ', '},
      {'name': 's2', 'kind': 'no-retentions', 'pattern': rx.make('anything', ''), 'rets': [], 'archives': [], 'caps': 'lower', 'ret_sep': ','},
      {'name': 's3', 'kind': 'full', 'pattern': rx.make('suffix', 'load'), 'rets': ['1h:1y'], 'archives': [[3600, 8760]], 'caps': 'title', 'ret_sep': ','},
      {'name': 's4', 'kind': 'full', 'pattern': rx.make('anything', ''), 'rets': ['5m:2w'], 'archives': [[300, 4032]], 'caps': 'lower', 'ret_sep': ','},
    ]
    names = ['carbon.agents.cpu', 'servers.web.cpu', 'servers.db.load', 'carbon.load', 'other.metric']
    perms = list(itertools.permutations(base))
    for pi, perm in enumerate(perms):
      if pi % ctx.nshards != (ctx.shard or 0):
        continue
      execute(ctx, {'schemas': list(perm), 'aggs': [], 'names': names, 'agg_file_missing': False})
