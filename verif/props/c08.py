"""C08 - aggregates are the rule function over exactly the values of their interval."""
import fractions
import math
import os

from hypothesis import strategies as st
from twisted.internet.task import Clock, LoopingCall

from .. import env
from ..core import HarnessError
from ..hyp import run_given
from ..ref import aggpat

LEVEL = 'exploration'
RULE = ('Rule sets of 1-4 rules from the documented pattern language (literals, *, embedded *, <field> with literal '
        'prefix/suffix, <<field>>; distinct output prefixes) with every aggregation method and frequency in {1,5,10,60}, '
        'written to a file and loaded by RuleManager.read_rules(); MAX_AGGREGATION_INTERVALS in {1,2,5}, '
        'WRITE_BACK_FREQUENCY in {None,1,2,7,30}, FORWARD_ALL on/off, name cache off/LRU/TTL; histories of <= 50 steps: '
        'receive(name, timestamp, value) with names that hit and miss (extra/fewer/empty segments, the aggregate\'s own '
        'name), timestamps now / late / very old / slightly future / duplicate / fractional, values small dyadic numbers and '
        '+-inf, and clock advances {0.5, 1, freq, 3 freq, 50 freq} on a virtual clock driving the real LoopingCalls; then '
        'the clock runs on for MAX+3 intervals. Oracle: each emitted (series, interval, value) equals the rule function '
        '(exact rational arithmetic) over a suffix R[k:] of the values received for that interval with k <= first value '
        'since the previous emission, k = 0 while the interval is certainly inside the documented retention horizon; '
        're-emission only after new data; every value emitted after the final phase; <= MAX+2 interval buffers after every '
        'flush; idle series released (no buffers, no pending timers); pass-through exactly once iff FORWARD_ALL and the '
        'name is not an aggregate it fed; names attributed by an independent matcher (whole-name match, <field> dot-free '
        'and non-empty); no error logged. Non-trivial = a late value for an already emitted interval, and an expiry or a '
        '<<field>> match spanning dots; distinct by hash of the case.')
ASSUMPTIONS = [
  'two rules never produce the same aggregate name (that configuration has no documented meaning)',
  'WRITE_BACK_FREQUENCY = 0 is excluded: a zero-interval LoopingCall never terminates on a virtual clock',
  'names for which the pattern language admits several bindings are not sent',
  'expiry is only judged away from its documented boundaries: values may be forgotten once a flush happened >= MAX*frequency after the last datapoint of the interval (the documented figure; the code itself waits longer), or when at some flush at least MAX+2 newer intervals of the series had received data (the too-many rule takes the oldest intervals)',
  'values are small dyadic rationals so that floating point sums are exact; avg/percentiles are compared with relative tolerance 1e-9; value checks with +-inf only for sum/min/max/count',
]
SIGNATURES = ()

BASE = 1600000000.0
PCT = {'p50': 0.5, 'p75': 0.75, 'p80': 0.8, 'p90': 0.9, 'p95': 0.95, 'p99': 0.99, 'p999': 0.999}


def advance_through(clock, d, max_ticks=400):
  """Advance the virtual clock by d the way a reactor does: every timer fires at its own due time (task.Clock.advance
  alone would run a LoopingCall once at the end and let it skip the intervals in between).  Very long waits with a
  short period are coarsened to about max_ticks stops."""
  target = clock.seconds() + d
  floor = d / float(max_ticks)
  n = 0
  while True:
    due = [c.getTime() for c in clock.getDelayedCalls()]
    nxt = min(due) if due else None
    if nxt is None or nxt > target:
      break
    step = max(nxt - clock.seconds(), floor if n >= max_ticks else 0.0)
    if clock.seconds() + step > target:
      break
    clock.advance(step)
    n += 1
    if n > 5 * max_ticks:
      break
  if target > clock.seconds():
    clock.advance(target - clock.seconds())


@st.composite
def cases(draw):
  nrules = draw(st.integers(1, 4))
  rules = [draw(aggpat.rules(idx=i)) for i in range(nrules)]
  if draw(st.integers(0, 3)) == 0:
    # several aggregates of the same inputs (same input pattern and frequency, another output and method)
    r = draw(st.sampled_from(rules))
    rules.append(dict(r, output='also%d.%s' % (len(rules), r['output']), method=draw(st.sampled_from(['sum', 'count', 'max', 'min']))))
  namegen = aggpat.names_for(rules)
  maxint = draw(st.sampled_from([1, 2, 5]))
  steps = []
  used = []
  for _ in range(draw(st.integers(3, 50))):
    k = draw(st.integers(0, 9))
    if k <= 5:
      if used and draw(st.integers(0, 2)):
        name = draw(st.sampled_from(used))
      else:
        name = draw(namegen)
        used.append(name)
      how = draw(st.sampled_from(['now', 'now', 'late1', 'late1', 'late2', 'late3', 'old', 'future', 'frac', 'same', 'same']))
      val = draw(st.one_of(st.integers(-50, 50), st.integers(-8, 8).map(lambda x: x / 4.0),
                           st.sampled_from([float('inf'), float('-inf'), 0.0, 1000.0])))
      steps.append(['recv', name, how, val])
    elif k == 7 and used and draw(st.booleans()):
      # a back-fill batch that straddles a flush tick: backlog oldest-last, flush, then more points for that oldest interval
      nm = draw(st.sampled_from(used))
      steps.append(['replay', nm, draw(st.integers(2, 9)), draw(st.integers(-20, 20)), 'asc'])
      steps.append(['advance', draw(st.sampled_from(['freq', '1', '3freq']))])
      for _ in range(draw(st.integers(1, 3))):
        steps.append(['recv', nm, 'same', draw(st.integers(-20, 20))])
    elif k == 8 and used and draw(st.booleans()):
      # a trickle around an interval edge with flushes that are not on the edge: two arrivals a little apart, about
      # one interval of flushes, then a late datapoint for the same interval
      nm = draw(st.sampled_from(used))
      steps.append(['recv', nm, 'now', draw(st.integers(-20, 20))])
      steps.append(['advance', draw(st.sampled_from(['1', '1', '7', 'half']))])
      steps.append(['recv', nm, 'now', draw(st.integers(-20, 20))])
      steps.append(['advance', draw(st.sampled_from(['freq', 'freq', 'half', 'freq+7']))])
      steps.append(['recv', nm, draw(st.sampled_from(['late1', 'late1', 'now', 'same'])), draw(st.integers(-20, 20))])
      steps.append(['advance', draw(st.sampled_from(['1', '7', 'half', 'freq']))])
    elif k == 6 and used:
      # a live datapoint followed by a replayed backlog of older intervals (buffers allocated out of order)
      steps.append(['replay', draw(st.sampled_from(used)), draw(st.integers(2, 9)), draw(st.integers(-20, 20)),
                    draw(st.sampled_from(['desc', 'asc', 'live-last']))])
    else:
      steps.append(['advance', draw(st.sampled_from(['0.5', '1', '1', '7', 'half', 'freq', 'freq', '3freq', '50freq']))])
  return {'rules': rules, 'styles': [draw(st.integers(0, 1)) for _ in rules], 'max_intervals': maxint,
          'wbf': draw(st.sampled_from([None, None, 1, 2, 7, 30])), 'forward_all': draw(st.booleans()),
          'cache': draw(st.sampled_from(['off', 'off', 'lru', 'ttl'])), 'steps': steps}


def ref_function(method, values):
  """the rule function in exact arithmetic; returns (kind, value) with kind 'exact'|'approx'|'skip'."""
  finite = all(math.isfinite(v) for v in values)
  if method == 'count':
    return 'exact', len(values)
  if method == 'min':
    return 'exact', min(values)
  if method == 'max':
    return 'exact', max(values)
  if method == 'sum':
    if finite:
      return 'exact', float(sum(fractions.Fraction(v) for v in values))
    pos = any(v == float('inf') for v in values)
    neg = any(v == float('-inf') for v in values)
    if pos and neg:
      return 'nan', None
    return 'exact', float('inf') if pos else float('-inf')
  if not finite:
    return 'skip', None
  fr = [fractions.Fraction(v) for v in values]
  if method == 'avg':
    return 'approx', float(sum(fr) / len(fr))
  factor = fractions.Fraction(str(PCT[method]))
  s = sorted(fr)
  rank = factor * (len(s) - 1)
  lo = rank.numerator // rank.denominator
  if rank == lo:
    return 'approx', float(s[lo])
  hi = lo + 1
  return 'approx', float(s[lo] * (hi - rank) + s[hi] * (rank - lo))


def value_matches(method, values, got):
  kind, want = ref_function(method, values)
  if kind == 'skip':
    return True
  if kind == 'nan':
    return got != got
  if got is None or got != got:
    return False
  if kind == 'exact':
    return got == want
  return abs(got - want) <= 1e-9 * max(1.0, abs(want))


def execute(ctx, case):
  b = env.bootstrap()
  cache_settings = {'off': (0, 0), 'lru': (50, 0), 'ttl': (50, 300)}[case['cache']]
  env.reset(MAX_AGGREGATION_INTERVALS=case['max_intervals'], WRITE_BACK_FREQUENCY=case['wbf'], FORWARD_ALL=case['forward_all'],
            CACHE_METRIC_NAMES_MAX=cache_settings[0], CACHE_METRIC_NAMES_TTL=cache_settings[1], LOG_AGGREGATOR_MISSES=False)
  buffers = b.buffers
  clock = Clock()

  class FakeTime(object):
    @staticmethod
    def time():
      return BASE + clock.seconds()

  def make_lc(f, *a, **kw):
    lc = LoopingCall(f, *a, **kw)
    lc.clock = clock
    return lc
  MB = env.need(buffers, 'MetricBuffer')
  saved = (buffers.time, env.need(buffers, 'LoopingCall'), MB.compute_value)
  over = []
  flushes = {}

  real_compute = MB.compute_value

  def compute_wrapper(self):
    path = self.metric_path
    real_compute(self)
    flushes.setdefault(path, []).append(FakeTime.time())
    n = len(self.interval_buffers)
    if n > case['max_intervals'] + 2:
      over.append((path, n))
  buffers.time = FakeTime
  buffers.LoopingCall = make_lc
  MB.compute_value = compute_wrapper
  try:
    path = os.path.join(b.conf_dir, 'aggregation-rules.conf')
    with open(path, 'w') as f:
      f.write('# generated\n\n' + '\n'.join(aggpat.render(r, s) for r, s in zip(case['rules'], case['styles'])) + '\n')
    os.utime(path, (1500000000, 1500000000))
    RM = b.rules.RuleManager
    RM.rules_file = path
    RM.rules_last_read = 0.0
    try:
      RM.read_rules()
    except Exception as e:  # noqa
      ctx.fail('C08:rules-rejected:%s' % type(e).__name__, 'rule file rejected: %r' % (e,), case)
      return
    if len(RM.rules) != len(case['rules']):
      ctx.fail('C08:rules-miscounted', '%d rules in the file, %d loaded' % (len(case['rules']), len(RM.rules)), case)
      return
    proc = env.need(b.processor, 'AggregationProcessor')()
    emitted = []
    seq = [0]

    def on_generated(m, dp):
      seq[0] += 1
      emitted.append((m, dp[0], dp[1], FakeTime.time(), seq[0]))
    b.events.metricGenerated.handlers.append(on_generated)
    freq_of = {}
    R = {}            # (series, interval) -> [(value, arrival_time)]
    intervals_of = {}
    n_err0 = len(b.log_errors)
    last_ts = [BASE]
    sent = []
    flags = set()
    maxfreq = max(r['frequency'] for r in case['rules'])
    def feed(step, now, f0):
      """one received datapoint; returns False after reporting a violation"""
      _, name, how, val = step
      if how.startswith('abs:'):
        ts = int(how[4:])
      else:
        ts = {'now': int(now), 'late1': int(now) - f0, 'late2': int(now) - 2 * f0, 'late3': int(now) - 3 * f0,
              'old': int(now) - (case['max_intervals'] + 5) * maxfreq, 'future': int(now) + 2, 'frac': now - 0.25,
              'same': last_ts[0]}[how]
      last_ts[0] = ts
      cands = [aggpat.aggregates(r, name) for r in case['rules']]
      if any(len(c) > 1 for c in cands):
        return True                   # ambiguous binding: not sent
      fed = []
      for r, c in zip(case['rules'], cands):
        if c:
          fed.append((c[0], r))
          if '<<' in r['input'] and any('.' in v for v in aggpat.match(r['input'], name)[0].values()):
            flags.add('<<field>> spanning dots')
      try:
        out = list(proc.process(name, (ts, val)))
      except Exception as e:  # noqa
        ctx.fail('C08:process-raised:%s' % type(e).__name__, 'process(%r, %r) raised %r' % (name, (ts, val), e), case)
        return False
      sent.append((name, ts, val))
      want_out = [(name, (ts, val))] if case['forward_all'] and name not in [a for a, _ in fed] else []
      if out != want_out:
        ctx.fail('C08:pass-through', 'FORWARD_ALL=%s, %r feeds %r: process() yielded %r, expected %r' % (
          case['forward_all'], name, [a for a, _ in fed], out, want_out), case, 'pass-through')
        return False
      for a, r in fed:
        freq_of.setdefault(a, (r['frequency'], r['method']))
        fq = freq_of[a][0]
        I = ts - (ts % fq)
        seq[0] += 1
        R.setdefault((a, I), []).append((val, now, seq[0]))
        intervals_of.setdefault(a, set()).add(I)
        if any(e[0] == a and e[1] == I for e in emitted):
          flags.add('late value for an emitted interval')
      return True

    for step in case['steps']:
      if step[0] == 'advance':
        d = {'0.5': 0.5, '1': 1.0, '7': 7.0, 'half': maxfreq / 2.0, 'freq': float(maxfreq), 'freq+7': maxfreq + 7.0,
             '3freq': 3.0 * maxfreq, '50freq': 50.0 * maxfreq}[step[1]]
        advance_through(clock, d)
        continue
      now = FakeTime.time()
      f0 = case['rules'][0]['frequency']
      pending = []
      if step[0] == 'replay':
        _, name, n, val, order = step
        offs = list(range(1, n + 1))
        seq_ = {'desc': [0] + offs[::-1], 'asc': [0] + offs, 'live-last': offs + [0]}[order]
        pending.extend(['recv', name, 'abs:%d' % (int(now) - j * f0), val + j] for j in seq_)
        flags.add('replayed backlog')
      else:
        pending.append(step)
      for st_ in pending:
        if not feed(st_, now, f0):
          return
    # final phase: no new input, the clock passes MAX+3 intervals
    period = min([r['frequency'] for r in case['rules']] + ([case['wbf']] if case['wbf'] else []))
    total = (case['max_intervals'] + 3) * maxfreq + 2 * maxfreq
    nsteps = int(min(700, total / max(1, period)))
    for _ in range(nsteps + 1):
      clock.advance(total / float(nsteps + 1) if nsteps >= 700 else period)
    # ---- judge emissions ---------------------------------------------------------------
    if os.environ.get('VERIF_C08_DEBUG'):
      print('emitted', [(a, I - BASE, v, T - BASE) for (a, I, v, T, sq) in emitted])
      print('flushes', {a: [F - BASE for F in fs] for a, fs in flushes.items()})
      print('received', {(a, I - BASE): [(x[0], x[1] - BASE) for x in vs] for (a, I), vs in R.items()})
    pos = {}       # (s, I) -> index of first value not yet covered by an emission
    for (a, I, v, T, sq) in emitted:
      if (a, I) not in R:
        ctx.fail('C08:unexpected-aggregate', 'emitted %r interval %r = %r although no received name maps to it (rules %r)' % (
          a, I, v, [aggpat.render(r) for r in case['rules']]), case, 'attribution')
        return
      fq, method = freq_of[a]
      arrived = [x for x in R[(a, I)] if x[2] < sq]
      vals = [x[0] for x in arrived]
      e = pos.get((a, I), 0)
      if e >= len(vals):
        ctx.fail('C08:re-emitted-without-new-data', '%r interval %r emitted again at t+%.1f without new datapoints' % (
          a, I, T - BASE), case, 're-emit-only-on-new-data')
        return
      ks = [k for k in range(0, e + 1) if value_matches(method, vals[k:], v)]
      if not ks:
        ctx.fail('C08:wrong-aggregate-value', '%s of %r interval %r emitted %r at t+%.1f; values received so far %r, %d of them '
                 'since the previous emission' % (method, a, I, v, T - BASE, vals, len(vals) - e), case, 'function-of-interval')
        return
      if 0 not in ks:
        # some earlier values were forgotten: only legitimate after an expiry.  Any k that explains the emitted value
        # and whose forgotten prefix could have expired (per the documented rules) is accepted.
        excused = False
        for k in ks:
          forgotten_last_arrival = arrived[k - 1][1]
          # only flushes before the first retained value arrived can have expired the forgotten ones
          first_kept_arrival = arrived[k][1]
          fl = [F for F in flushes.get(a, []) if forgotten_last_arrival <= F <= first_kept_arrival]
          old_enough = any(F - forgotten_last_arrival >= case['max_intervals'] * fq for F in fl)
          # the "more than MAX+2 intervals" rule may only take the OLDEST intervals: it excuses forgetting only if at
          # some flush in the window this interval was not among the newest MAX+2 intervals that had received data
          too_many = False
          for F in fl:
            had_data = set(Ix for (ax, Ix), vs in R.items() if ax == a and any(x[1] <= F for x in vs))
            newer = sum(1 for Ix in had_data if Ix > I)
            if newer >= case['max_intervals'] + 2:
              too_many = True
          if old_enough or too_many:
            excused = True
            break
        if not excused:
          k = min(ks)
          ctx.fail('C08:values-forgotten-inside-horizon',
                   '%s of %r interval %r emitted %r at t+%.1f = function of only the last %d of %d values although the interval '
                   'never left the retention horizon (MAX_AGGREGATION_INTERVALS=%d, frequency %d)' % (
                     method, a, I, v, T - BASE, len(vals) - k, len(vals), case['max_intervals'], fq), case, 'all-values')
          return
        flags.add('expiry observed')
      pos[(a, I)] = len(vals)
    for (a, I), vals in R.items():
      if pos.get((a, I), 0) < len(vals):
        ctx.fail('C08:values-never-emitted', '%d datapoints received for %r interval %r were never part of an emission '
                 '(clock ran %d s past the last input)' % (len(vals) - pos.get((a, I), 0), a, I, total), case, 'completeness')
        return
    if over:
      ctx.fail('C08:too-many-interval-buffers', 'after a flush series %r holds %d interval buffers, more than '
               'MAX_AGGREGATION_INTERVALS + 2 = %d' % (over[0][0], over[0][1], case['max_intervals'] + 2), case, 'bounded-buffers')
      return
    left = len(buffers.BufferManager)
    pending = [c for c in clock.getDelayedCalls()]
    if left or pending:
      ctx.fail('C08:idle-series-not-released', 'after %d idle seconds %d series are still registered and %d timers pending' % (
        total, left, len(pending)), case, 'released')
      return
    if len(b.log_errors) > n_err0:
      ev = b.log_errors[n_err0]
      ctx.fail('C08:error-logged', 'an error was logged: %s' % (str(ev.get('failure') or ev.get('message'))[:300],), case, 'no-errors')
      return
    classes = ['rules=%d' % len(case['rules']), 'max=%d' % case['max_intervals'], 'wbf=%s' % case['wbf'],
               'forward_all' if case['forward_all'] else 'no-forward', 'cache=' + case['cache']]
    classes += sorted(set('method:' + m for _, m in freq_of.values()))
    classes += sorted(flags)
    ctx.note(case, nontrivial='late value for an emitted interval' in flags and
             ('expiry observed' in flags or '<<field>> spanning dots' in flags), classes=classes)
  finally:
    buffers.time, buffers.LoopingCall, MB.compute_value = saved
    buffers.BufferManager.buffers = {}


def own_aggregate_cases():
  """a datapoint named like one of the aggregates it feeds, matched by further rules before and after that one (the
  pass-through exception of the property looks at all the aggregates a name feeds, not at one rule)"""
  own = {'input': '*.*', 'output': 'agg0.all', 'method': 'sum', 'frequency': 10, 'fields': []}
  other = {'input': 'agg0.*', 'output': 'agg1.other', 'method': 'count', 'frequency': 10, 'fields': []}
  third = {'input': '<<rest>>', 'output': 'agg2.every', 'method': 'max', 'frequency': 5, 'fields': ['rest']}
  out = []
  for rules in ([own, other], [other, own], [other, own, third], [own], [third, own, other]):
    for forward_all in (True, False):
      for cache in ('off', 'lru'):
        out.append({'rules': rules, 'styles': [0] * len(rules), 'max_intervals': 2, 'wbf': None, 'forward_all': forward_all,
                    'cache': cache, 'steps': [['recv', 'agg0.all', 'now', 3], ['recv', 'agg0.b', 'now', 4], ['advance', 'freq'],
                                              ['recv', 'agg0.all', 'now', 5], ['advance', '3freq']]})
  return out


def run(ctx):
  for case in own_aggregate_cases():
    execute(ctx, case)
  run_given(ctx, cases(), execute, ctx.scale(1000, 5000), salt=1)
