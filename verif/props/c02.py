"""C02 - the cache neither loses nor duplicates datapoints; last write wins; size exact."""
import itertools

from hypothesis import strategies as st

from .. import cachesim, env, lin
from ..hyp import run_given

LEVEL = 'exploration'
RULE = ('Histories of store / drain / cache-query / cache-query-bulk over <=5 metrics x <=4 timestamps with unique '
        'values, run by a receiving thread and a writer thread under a generated line-granular schedule (list of '
        'preemption points), plus long single-thread histories (<=60 ops), for all six write strategies; thorough adds '
        'all schedules with <=2 preemptions for fixed workloads. Oracle: linearizability against the sequential '
        'map-of-maps specification incl. a final full read, size == number of datapoints held at every lock-free '
        'scheduling point, no operation raises. Non-trivial = history with an overwrite of a cached timestamp and a '
        're-store after a drain, and (concurrent) >=1 preemption inside a cache operation; distinct by hash of '
        '(strategy, programs, switches).')
ASSUMPTIONS = [
  'interleaving granularity is one source line of lib/carbon/cache.py, events.py, protocols.py for the generated schedules; the prefilled single-preemption enumeration additionally runs at bytecode granularity inside cache.py (sys.settrace opcode events)',
  'cache queries run on the receiving (reactor) thread, as in the daemon; only the writer thread runs concurrently',
  'unbounded cache here; the bounded cache is C10',
  'random strategy: random.choice replaced by a generated index sequence',
]
SIGNATURES = ()

METRICS = ['a', 'cpu.%idle', '', 'c%d', 'd;z=1;b=2', 'e;x']     # '' is legal and falsy; '%' is legal in names; tags in non-canonical order / not parsable as tags: cached and queried as received


@st.composite
def switch_lists(draw, max_switches=10, max_gap=40):
  n = draw(st.integers(0, max_switches))
  pos = 0
  out = []
  for _ in range(n):
    pos += draw(st.one_of(st.integers(1, 6), st.integers(1, max_gap)))
    out.append([pos, 1])
  return out


TS_POOL = [1, 1.5, 2, 1.25, 3, 4]


@st.composite
def recv_ops(draw, n, counter, nmetrics=5, nts=4):
  ops = []
  for _ in range(n):
    k = draw(st.integers(0, 9))
    if k <= 6:
      counter[0] += 1
      # whole seconds and sub-second timestamps inside them (distinct datapoints: receivers parse floats)
      ops.append(['store', draw(st.sampled_from(METRICS[:nmetrics])), draw(st.sampled_from(TS_POOL[:nts + 2])), counter[0]])
    elif k <= 8:
      ops.append(['query', draw(st.sampled_from(METRICS[:nmetrics]))])
    else:
      ops.append(['bulk', draw(st.lists(st.sampled_from(METRICS[:nmetrics]), unique=True, max_size=3))])
  return ops


@st.composite
def concurrent_cases(draw, strategy=None):
  strategy = strategy or draw(st.sampled_from(cachesim.STRATEGIES))
  counter = [-1]       # values are unique ids 0, 1, 2, ...: the first one is the falsy 0
  nm = draw(st.integers(1, 5))
  nts = draw(st.integers(1, 4))
  recv = draw(recv_ops(draw(st.integers(2, 9)), counter, nm, nts))
  writer = [['drain'] for _ in range(draw(st.integers(1, 8)))]
  case = {'strategy': strategy, 'programs': [recv, writer], 'switches': draw(switch_lists()),
          'choices': draw(st.lists(st.integers(0, 4), max_size=8)), 'first': draw(st.integers(0, 1))}
  if draw(st.integers(0, 3)) == 0:
    case['max_cache_size'] = draw(st.integers(1, 4))     # bounded cache: the same clauses hold (refusals per C10)
    case['flow'] = draw(st.booleans())                   # flow control: "nearly full" announced, watermark checked in drains
  return case


@st.composite
def sequential_cases(draw, strategy=None):
  strategy = strategy or draw(st.sampled_from(cachesim.STRATEGIES))
  counter = [-1]       # values are unique ids 0, 1, 2, ...: the first one is the falsy 0
  nm = draw(st.integers(1, 5))
  nts = draw(st.integers(1, 4))
  ops = []
  for _ in range(draw(st.integers(3, 60))):
    if draw(st.integers(0, 3)) == 0:
      ops.append(['drain'])
    else:
      ops += draw(recv_ops(1, counter, nm, nts))
  case = {'strategy': strategy, 'programs': [ops, []], 'switches': [],
          'choices': draw(st.lists(st.integers(0, 4), max_size=20)), 'first': 0}
  if draw(st.integers(0, 3)) == 0:
    case['max_cache_size'] = draw(st.integers(1, 4))
    case['flow'] = draw(st.booleans())
  return case


def size_invariant(ctx, case, bad):
  def on_point(run, sched, kind):
    cache = run.cache
    if cache.lock.owner is None and not bad:
      held = sum(len(d) for d in dict.values(cache))
      if cache.size != held:
        bad.append('at scheduling point %d (%s): cache.size=%d but %d datapoints held' % (
          sched.steps, kind, cache.size, held))
  return on_point


def nontrivial_history(case, run):
  stores = [o for o in case['programs'][0] if o[0] == 'store']
  seen = set()
  overwrite = False
  for o in stores:
    if (o[1], o[2]) in seen:
      overwrite = True
    seen.add((o[1], o[2]))
  drained = [o for h in run.history for o in h if o.op == 'drain' and o.exc is None and o.result[0] is not None]
  restore = False
  for d in drained:
    m = d.result[0]
    if any(o.op == 'store' and o.args[0] == m and o.inv > d.inv for o in run.history[0]):
      restore = True
  conc = bool(case['programs'][1])
  return overwrite and restore and (run.preemptions_in_op > 0 or not conc)


def judge(ctx, case, run, bad, spec=None, prefix='C02'):
  if run.aborted:
    ctx.fail('%s:%s' % (prefix, run.aborted), 'scheduled run aborted: %s after %d steps' % (run.aborted, run.steps), case)
    return False
  for h in run.history:
    for op in h:
      if op.exc is not None:
        ctx.fail('%s:%s-raised:%s' % (prefix, op.op, type(op.exc).__name__),
                 '%s%r raised %r (strategy %s)' % (op.op, op.args, op.exc, case['strategy']), case, 'no-failure')
        return False
  if bad:
    ctx.fail('%s:size-mismatch' % prefix, bad[0], case, 'size-exact')
    return False
  held = sum(len(d) for d in run.final.values())
  if run.final_size != held:
    ctx.fail('%s:size-mismatch' % prefix, 'at the end cache.size=%d but %d datapoints held' % (run.final_size, held),
             case, 'size-exact')
    return False
  groups = cachesim.groups_from_history(run.history)
  final = cachesim.freeze({m: d for m, d in run.final.items() if d})
  ok, _ = lin.linearizable(groups, spec or cachesim.make_spec(), frozenset(), lambda s: s == final)
  if not ok:
    ctx.fail('%s:not-linearizable' % prefix,
             'no sequential order of the operations explains the results (datapoint lost, duplicated, stale or '
             'unsorted batch). history=%r final=%r' % ([o.brief() for h in run.history for o in h], run.final),
             case, 'linearizability')
    return False
  return True


def execute(ctx, case):
  if case.get('cold'):
    return execute_cold(ctx, case)
  bad = []
  run = cachesim.run_case(case, on_point=size_invariant(ctx, case, bad))
  spec = None
  if case.get('max_cache_size') is not None:
    # a new timestamp may be refused when full (whether it must be is C10's business: the store's own
    # overflow signal tells which happened); an update of a cached timestamp always takes effect
    spec = cachesim.make_spec(hard_max=cachesim.derived_limits(case['max_cache_size'], case.get('flow'))[1], check_overflow=True)
  if not judge(ctx, case, run, bad, spec=spec):
    return
  conc = bool(case['programs'][1])
  classes = [case['strategy'], 'concurrent' if conc else 'sequential'] + (['bounded cache'] if case.get('max_cache_size') else [])
  if run.preemptions_in_op:
    classes.append('preempted inside an operation')
  if any(o[0] == 'bulk' for o in case['programs'][0]):
    classes.append('bulk query')
  ctx.note(case, nontrivial=nontrivial_history(case, run), classes=classes)


# fixed workloads for bounded-preemption enumeration (thorough)
WORKLOADS = [
  [[['store', 'a', 1, 1], ['store', 'a', 2, 2], ['store', 'b', 1, 3], ['store', 'a', 1, 4], ['query', 'a']],
   [['drain'], ['drain'], ['drain']]],
  [[['store', 'a', 1, 1], ['store', 'b', 1, 2], ['store', 'b', 2, 3], ['store', 'a', 2, 4], ['store', 'c', 1, 5],
    ['bulk', ['a', 'b']]],
   [['drain'], ['drain'], ['drain'], ['drain']]],
  [[['store', 'a', 1, 1], ['store', 'a', 1, 2], ['store', 'a', 2, 3], ['store', 'a', 1, 4]],
   [['drain'], ['drain']]],
]


def unpreempted_steps(case):
  c = dict(case, switches=[])
  return cachesim.run_case(c).steps


def enumerate_bounded(ctx, strategies):
  """All schedules with <= 2 preemptions for the fixed workloads (sharded)."""
  jobs = []
  for si, strategy in enumerate(strategies):
    for wi, wl in enumerate(WORKLOADS):
      for first in (0, 1):
        jobs.append((strategy, wi, first))
  total = 0
  for ji, (strategy, wi, first) in enumerate(jobs):
    if ji % ctx.nshards != (ctx.shard or 0):
      continue
    base = {'strategy': strategy, 'programs': WORKLOADS[wi], 'switches': [], 'choices': [], 'first': first}
    n = unpreempted_steps(base) + 40
    for i in range(1, n):
      execute(ctx, dict(base, switches=[[i, 1]]))
      total += 1
    # two preemptions: sample every placement on a stride to stay within budget
    stride = 1 if n <= 140 else 2
    for i in range(1, n, stride):
      for j in range(i + 1, n, stride):
        execute(ctx, dict(base, switches=[[i, 1], [j, 1]]))
        total += 1
  ctx.extra['bounded_preemption_runs'] = ctx.extra.get('bounded_preemption_runs', 0) + total


DUP_WORKLOADS = [
  [[['store', 'a', 1, 1], ['store', 'a', 2, 2], ['store', 'b', 1, 3], ['store', 'a', 2, 4], ['store', 'a', 3, 5]], [['drain'], ['drain']]],
  [[['store', 'a', 1, 0], ['store', 'a', 1, 2], ['store', 'b', 1, 3], ['store', 'b', 1, 4]], [['drain'], ['drain'], ['drain']]],
]


# the threads start with data cached: ONE preemption of the writer's drain lets the receiving thread store into
# the window between the strategy's choice and the removal (new timestamps for the chosen metric, a re-sent one,
# another metric)
PREFILLED = [
  {'prefill_stores': [['a', 1, 100], ['a', 2, 101], ['b', 1, 102]],
   'programs': [[['store', 'a', 3, 0], ['store', 'b', 2, 1], ['store', 'c', 1, 2]], [['drain'], ['drain']]]},
  {'prefill_stores': [['b', 1, 100], ['a', 1, 101], ['a', 2, 102], ['', 1, 103]],
   'programs': [[['store', 'a', 2, 0], ['store', 'a', 4, 1], ['query', 'a']], [['drain'], ['drain'], ['drain']]]},
]


def enumerate_prefilled(ctx, fn, extra=None, strategies=None, workloads=None):
  total = 0
  for strategy in (strategies or cachesim.STRATEGIES):
    for pf in (workloads or PREFILLED):
      base = dict(pf, strategy=strategy, switches=[], choices=[], first=1)
      base.update(extra or {})
      n = unpreempted_steps(base) + 25
      for i in range(1, n):
        fn(ctx, dict(base, switches=[[i, 1]]))
        total += 1
  ctx.extra['single_preemption_runs'] = ctx.extra.get('single_preemption_runs', 0) + total


def enumerate_single(ctx, fn, extra=None, workloads=None):
  """every placement of ONE preemption for small fixed workloads with re-sent timestamps (the narrow windows
  inside store()/drain_metric() are reached deterministically instead of by luck)."""
  total = 0
  for strategy in cachesim.STRATEGIES:
    for wl in (workloads or DUP_WORKLOADS):
      for first in (0, 1):
        base = {'strategy': strategy, 'programs': wl, 'switches': [], 'choices': [], 'first': first}
        base.update(extra or {})
        n = unpreempted_steps(base) + 25
        for i in range(1, n):
          fn(ctx, dict(base, switches=[[i, 1]]))
          total += 1
  ctx.extra['single_preemption_runs'] = ctx.extra.get('single_preemption_runs', 0) + total


def execute_cold(ctx, case):
  """A fresh process: nothing has asked for the cache singleton yet except what the pipeline set-up did.  The
  receiving thread feeds datapoints through the write processor while the writer thread makes its first pass
  through the real MetricCache() factory; every placement of one preemption.  Conservation: every stored datapoint
  is handed out by exactly one drain (during the run or when the cache is drained to exhaustion afterwards)."""
  from ..sched import Sched, install_threading_shim
  b = env.bootstrap()
  cachemod = b.cache
  stores = case['stores']
  k = 0
  steps = None
  while True:
    k += 1
    if steps is not None and k > steps + 2:
      break
    env.reset(CACHE_WRITE_STRATEGY=case['strategy'])
    cachemod._Cache = None
    sched = Sched([[k, 1]], [cachemod.__file__], start=cachesim.T0)
    saved_time = cachemod.time
    cachemod.time = sched.time
    unshim = install_threading_shim(sched, [cachemod])
    try:
      proc = env.need(cachemod, 'CacheFeedingProcessor')()      # built by the pipeline set-up, before any thread runs
      drained = []

      def receiver():
        for m, t, v in stores:
          proc.process(m, (t, v))

      def writer():
        for _ in range(case['drains']):
          m, pts = cachemod.MetricCache().drain_metric()
          if m is not None:
            drained.extend((m, p[0], p[1]) for p in pts)
      sched.spawn('recv', receiver)
      sched.spawn('writer', writer)
      sched.run(case['first'])
      for t in sched.threads:
        if t.exc is not None:
          ctx.fail('C02:cold-start-raised:%s' % type(t.exc).__name__, 'first use of the cache from two threads raised %r' % (t.exc,), dict(case, preempt_at=k))
          return
      if sched.aborted:
        ctx.fail('C02:%s' % sched.aborted, 'cold start aborted: %s' % sched.aborted, dict(case, preempt_at=k))
        return
      if steps is None:
        steps = sched.steps
      cache = cachemod.MetricCache()
      for _ in range(len(stores) + 3):
        m, pts = cache.drain_metric()
        if m is None:
          break
        drained.extend((m, p[0], p[1]) for p in pts)
      want = sorted((m, float(t), v) for m, t, v in stores)
      got = sorted((m, float(t), v) for m, t, v in drained)
      if got != want:
        ctx.fail('C02:lost-or-duplicated-at-first-use',
                 'strategy %s, preemption at step %d of the first use of the cache: stored %r, handed out by drains %r (a datapoint '
                 'accepted by the pipeline is neither queryable nor ever drained, or drained twice)' % (case['strategy'], k, want, got),
                 dict(case, preempt_at=k), 'conservation')
        return
      ctx.evaluations += 1
    finally:
      unshim()
      cachemod.time = saved_time
      cachemod._Cache = None
  ctx.note(case, nontrivial=True, classes=['cold start through the singleton factory', case['strategy']],
           key=['cold', case['strategy'], case['first'], case['drains']])


def cold_cases(ctx):
  for strategy in (('sorted', 'max') if ctx.quick else cachesim.STRATEGIES):
    for first in (0, 1):
      yield {'cold': True, 'strategy': strategy, 'first': first, 'drains': 2,
             'stores': [['a', 1, 10.0], ['b', 1, 11.0], ['a', 2, 12.0]]}


def run(ctx):
  if (ctx.shard or 0) == 0:
    for case in cold_cases(ctx):
      execute_cold(ctx, case)
  if (ctx.shard or 0) == 0:
    enumerate_single(ctx, execute)
    enumerate_prefilled(ctx, execute)
    # the same at bytecode granularity inside cache.py (a read-modify-write statement can be torn apart)
    enumerate_prefilled(ctx, execute, extra={'opcodes': True}, strategies=('sorted', 'bucketmax') if ctx.quick else None,
                        workloads=PREFILLED[:1] if ctx.quick else None)
  if ctx.quick:
    for i, s in enumerate(cachesim.STRATEGIES):
      run_given(ctx, concurrent_cases(s), execute, 300, salt=10 + i)
      run_given(ctx, sequential_cases(s), execute, 120, salt=20 + i)
  else:
    for i, s in enumerate(cachesim.STRATEGIES):
      run_given(ctx, concurrent_cases(s), execute, 700, salt=10 + i)
      run_given(ctx, sequential_cases(s), execute, 250, salt=20 + i)
    enumerate_bounded(ctx, cachesim.STRATEGIES)
