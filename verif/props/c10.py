"""C10 - the cache stays within its configured bound and every refusal is signalled."""
import fractions
import math

from hypothesis import strategies as st

from .. import cachesim, env, lin
from ..core import HarnessError, Violation
from ..hyp import run_given
from . import c02

LEVEL = 'exploration'
RULE = ('As C02 (two scheduled threads / long sequential histories, all six strategies) with MAX_CACHE_SIZE in '
        '{1..6, 20} x USE_FLOW_CONTROL on/off; the derived hard limit and low watermark are obtained by running '
        "carbon's own CarbonCacheOptions.postOptions. Oracle: at every lock-free scheduling point size <= "
        'ceil(hard limit), size == datapoints held and no empty per-metric entry exists; history linearizable '
        'against the BOUNDED sequential spec in which a store of a new timestamp at size >= hard limit must raise '
        'the overflow signal exactly once and change nothing, and every other store must not signal and must take '
        'effect (duplicates accepted when full); cache.overflow counter == number of refusals. Non-trivial = at '
        'least one refusal and one accepted duplicate-while-full; distinct by hash of the case.')
ASSUMPTIONS = c02.ASSUMPTIONS[:2] + [
  'with a fractional hard limit (105% under flow control) the largest size any implementation of "refuse when size >= limit" can reach is ceil(limit); with flow control off the limit is an integer and the bound is exact',
  'the overflow event fires synchronously on the storing thread, so the recorder attributes it to the store in progress',
]
SIGNATURES = ()

SIZES = [1, 2, 3, 4, 5, 6, 20]


@st.composite
def bounded(draw, base):
  case = draw(base)
  case['max_cache_size'] = draw(st.sampled_from(SIZES + [1, 2, 3]))
  case['flow'] = draw(st.booleans())
  # where carbon.conf states the two options: [cache], or overridden (both / one of them) in [cache:a]
  layout = draw(st.sampled_from(['plain', 'plain', 'plain', 'inst', 'inst-flow', 'inst-size']))
  if layout != 'plain':
    case['conf_layout'] = layout
  return case


def invariants(case, hard, bad):
  cap = math.ceil(hard)

  def on_point(run, sched, kind):
    cache = run.cache
    if bad:
      return
    if cache.size > cap:
      bad.append(('C10:bound-exceeded', 'scheduling point %d: cache.size=%d exceeds the hard limit %s' % (
        sched.steps, cache.size, hard)))
      return
    if cache.lock.owner is None:
      held = 0
      for m, d in dict.items(cache):
        if not d:
          bad.append(('C10:refused-store-creates-empty-entry',
                      'scheduling point %d: metric %r is present in the cache with no datapoints '
                      '(metric count changed by a refused store)' % (sched.steps, m)))
          return
        held += len(d)
      if held != cache.size:
        bad.append(('C10:size-mismatch', 'scheduling point %d: size=%d, held=%d' % (sched.steps, cache.size, held)))
      elif held > cap:
        bad.append(('C10:bound-exceeded', 'scheduling point %d: %d datapoints held, hard limit %s' % (
          sched.steps, held, hard)))
  return on_point


def execute(ctx, case):
  if case.get('via') == 'processor':
    return execute_processor(ctx, case)
  b = env.bootstrap()
  mcs, hard_derived, low = cachesim.derived_limits(case['max_cache_size'], case['flow'], case.get('conf_layout', 'plain'))
  # the limit the property states: MAX_CACHE_SIZE, or 105% of it under flow control
  want = fractions.Fraction(case['max_cache_size']) * (fractions.Fraction(105, 100) if case['flow'] else 1)
  if abs(fractions.Fraction(hard_derived) - want) > fractions.Fraction(1, 10**6) or mcs != case['max_cache_size']:
    ctx.fail('C10:hard-limit-derivation', 'MAX_CACHE_SIZE=%s USE_FLOW_CONTROL=%s: daemon start-up derives hard limit %r, '
             'the documented limit is %s' % (case['max_cache_size'], case['flow'], hard_derived, float(want)), case, 'config')
    return
  hard = float(want) if want.denominator != 1 else int(want)
  bad = []
  run = cachesim.run_case(case, on_point=invariants(case, hard, bad))
  if bad:
    ctx.fail(bad[0][0], bad[0][1] + ' (MAX_CACHE_SIZE=%s flow=%s strategy=%s)' % (
      case['max_cache_size'], case['flow'], case['strategy']), case, 'bound')
    return
  for m, d in run.final.items():
    if not d:
      ctx.fail('C10:refused-store-creates-empty-entry', 'at the end metric %r is cached with no datapoints' % m, case)
      return
  spec = cachesim.make_spec(hard_max=hard, check_overflow=True)
  if not c02.judge(ctx, case, run, [], spec=spec, prefix='C10'):
    return
  refused = sum(o.overflow for h in run.history for o in h)
  counter = b.instrumentation.stats.get('cache.overflow', 0)
  if counter != len(run.overflow_events) or refused != counter:
    ctx.fail('C10:overflow-counter', 'cache.overflow counter=%s, overflow events=%d, attributed to stores=%d' % (
      counter, len(run.overflow_events), refused), case, 'counter')
    return
  # the signal has to FEED the reported counter: run the daemon's periodic instrumentation pass twice on the live
  # (possibly full) cache - it stores carbon's own metrics into the same cache, so it causes refusals itself - and
  # demand conservation: signals raised == values reported as cache.overflow + what is still pending
  instr = b.instrumentation
  reported = []
  real_record = env.need(instr, 'cache_record')
  if not (refused or run.final_size >= hard) or (ctx.evaluations % 3 and not ctx.replaying):
    real_record = None      # nothing was refused and the cache is not full: skip the (slow) instrumentation pass

  def recording_record(metric, value):
    if metric == 'cache.overflow':
      reported.append(value)
    real_record(metric, value)
  if real_record is not None:
    instr.cache_record = recording_record
  try:
    b.settings['program'] = 'carbon-cache'
    for _ in range(2 if real_record is not None else 0):
      instr.recordMetrics()
  except Exception as e:  # noqa
    ctx.fail('C10:recordMetrics-raised:%s' % type(e).__name__, 'instrumentation.recordMetrics() raised %r' % (e,), case)
    return
  finally:
    if real_record is not None:
      instr.cache_record = real_record
  pending = b.instrumentation.stats.get('cache.overflow', 0)
  if real_record is not None and sum(reported) + pending != len(run.overflow_events):
    ctx.fail('C10:overflow-signals-not-reported',
             '%d overflow signals were raised (%d of them while the instrumentation pass stored its own metrics into the full '
             'cache) but cache.overflow was reported as %r with %d pending' % (
               len(run.overflow_events), len(run.overflow_events) - refused, reported, pending), case, 'counter')
    return
  # non-triviality: a refusal and an accepted duplicate while full
  dup_full = False
  state = {}
  size = 0
  # replay sequentially in invocation order of the storing thread + drains by resp (approximate classification only)
  for o in sorted([o for h in run.history for o in h], key=lambda o: o.inv):
    if o.op == 'store':
      m, t, v = o.args
      if t in state.get(m, {}):
        if size >= hard:
          dup_full = True
        state[m][t] = v
      elif not o.overflow:
        state.setdefault(m, {})[t] = v
        size += 1
    elif o.op == 'drain' and o.result and o.result[0] is not None:
      size -= len(state.pop(o.result[0], {}))
  classes = [case['strategy'], 'flow' if case['flow'] else 'noflow', 'max=%d' % case['max_cache_size'],
             'carbon.conf layout: %s' % case.get('conf_layout', 'plain')]
  if refused:
    classes.append('refusal')
  if dup_full:
    classes.append('duplicate accepted while full')
  ctx.note(case, nontrivial=bool(refused) and dup_full, classes=classes)


def execute_processor(ctx, case):
  try:
    return execute_processor_(ctx, case)
  except (HarnessError, Violation):
    raise
  except Exception as e:  # noqa: a legal datapoint is stored or refused with a signal, the store never raises
    if not _in_code_under_test(e):
      raise
    ctx.fail('C10:store-raised:%s' % type(e).__name__, 'storing a legal datapoint through the write processor raised %r '
             '(MAX_CACHE_SIZE=%d flow=%s strategy %s)' % (e, case['max_cache_size'], case['flow'], case['strategy']), case, 'signal')


def _in_code_under_test(e):
  import traceback
  frames = traceback.extract_tb(e.__traceback__)
  return bool(frames) and '/carbon/' in frames[-1].filename.replace('\\', '/')


def execute_processor_(ctx, case):
  """Through the write processor, as the daemon stores: a tagged series fills the cache to its hard limit, then an
  already cached timestamp is sent again in another legal spelling of the same series.  It is an update: accepted,
  no overflow signal, size unchanged."""
  b = env.bootstrap()
  env.reset(CACHE_WRITE_STRATEGY=case['strategy'], USE_FLOW_CONTROL=case['flow'])
  m, hard, low = cachesim.apply_limits(b, case['max_cache_size'], case['flow'])
  overflow = []
  b.events.cacheOverflow.handlers.append(lambda: overflow.append(1))
  proc = env.need(b.cache, 'CacheFeedingProcessor')()
  cache = b.cache.MetricCache()
  canon = 'srv.cpu;a=1;b=2'
  t = 100
  stalled = 0
  while not overflow and stalled < 2 and t < 100 + 4 * case['max_cache_size'] + 12:
    before = cache.size
    proc.process(canon, (t, float(t)))
    stalled = stalled + 1 if cache.size == before else 0
    t += 1
  if not overflow:
    if stalled:
      ctx.fail('C10:refused-without-signal', 'new datapoints are refused at %d cached datapoints (MAX_CACHE_SIZE=%d flow=%s) but no '
               'overflow signal was raised' % (cache.size, case['max_cache_size'], case['flow']), case, 'signal')
      return
    raise HarnessError('cache never filled')
  full_size = cache.size
  held = dict(dict.get(cache, canon, {}))
  del overflow[:]
  ts = min(held)
  for spelling in case['spellings']:
    proc.process(spelling, (ts, 4242.0))
    now = dict(dict.get(cache, canon, {}))
    if overflow or cache.size != full_size or now.get(ts) != 4242.0 or len(cache) != 1:
      ctx.fail('C10:update-refused-when-full', 'cache at its hard limit (%d datapoints, MAX_CACHE_SIZE=%d flow=%s %s): timestamp %r of %r '
               're-sent as %r -> overflow signals %d, size %d, cached value %r, cached series %r' % (
                 full_size, case['max_cache_size'], case['flow'], case['strategy'], ts, canon, spelling, len(overflow), cache.size,
                 now.get(ts), sorted(dict.keys(cache))), case, 'update-accepted')
      return
    proc.process(canon, (ts, float(ts)))
  ctx.note(case, nontrivial=True, classes=['update through the write processor while full'],
           key=['proc', case['strategy'], case['max_cache_size'], case['flow']])


def processor_cases(ctx):
  for strategy in (('sorted', 'bucketmax') if ctx.quick else cachesim.STRATEGIES):
    for mcs in (1, 2, 5):
      for flow in (False, True):
        yield {'via': 'processor', 'strategy': strategy, 'max_cache_size': mcs, 'flow': flow,
               'spellings': ['srv.cpu;a=1;b=2', 'srv.cpu;b=2;a=1', 'srv.cpu{b="2",a="1"}', 'srv.cpu{a="1",b="2"}']}


def run(ctx):
  if (ctx.shard or 0) == 0:
    for case in processor_cases(ctx):
      execute(ctx, case)
  if (ctx.shard or 0) == 0:
    for mcs, flow in (((1, False), (2, True)) if ctx.quick else ((1, False), (2, True), (3, False))):
      c02.enumerate_single(ctx, execute, extra={'max_cache_size': mcs, 'flow': flow},
                           workloads=c02.DUP_WORKLOADS[:1] if ctx.quick else None)
    for mcs, flow in ((2, False), (3, True)):
      c02.enumerate_prefilled(ctx, execute, extra={'opcodes': True, 'max_cache_size': mcs, 'flow': flow},
                              strategies=('sorted', 'max') if ctx.quick else None, workloads=c02.PREFILLED[:1] if ctx.quick else None)
  n_c, n_s = (260, 110) if ctx.quick else (900, 350)
  for i, s in enumerate(cachesim.STRATEGIES):
    run_given(ctx, bounded(c02.concurrent_cases(s)), execute, n_c, salt=30 + i)
    run_given(ctx, bounded(c02.sequential_cases(s)), execute, n_s, salt=40 + i)
  if not ctx.quick:
    total = 0
    jobs = [(s, wi, mcs, flow) for s in cachesim.STRATEGIES for wi in range(len(c02.WORKLOADS))
            for mcs in (1, 2, 3) for flow in (False, True)]
    for ji, (s, wi, mcs, flow) in enumerate(jobs):
      if ji % ctx.nshards != (ctx.shard or 0):
        continue
      base = {'strategy': s, 'programs': c02.WORKLOADS[wi], 'switches': [], 'choices': [], 'first': 0,
              'max_cache_size': mcs, 'flow': flow}
      n = c02.unpreempted_steps(base) + 30
      for i in range(1, n):
        execute(ctx, dict(base, switches=[[i, 1]]))
        total += 1
      for i in range(1, n, 3):
        for j in range(i + 1, n, 3):
          execute(ctx, dict(base, switches=[[i, 1], [j, 1]]))
          total += 1
    ctx.extra['bounded_preemption_runs'] = total
