"""C12 - admission rules: blacklist, whitelist, NaN and timestamp normalisation."""
import math
import os
import pickle
import re
import struct

from hypothesis import strategies as st

from .. import env, wire
from ..hyp import run_given
from ..ref import rx

LEVEL = 'exploration'
RULE = ('Whitelist and blacklist FILES (0-6 lines each: restricted-grammar patterns evaluated by a re-free matcher, '
        'unrestricted regexes, blank lines, # comments, invalid regexes) loaded through RegexList.read_list() from real '
        'files, regenerated mid-case with a newer mtime; names from a grammar that hits and misses; values incl. NaN and '
        '+-inf; timestamps >= 0 (ints, fractional) and exactly -1; MIN_TIMESTAMP_RESOLUTION in {0,1,10,60}; virtual '
        'time.time in carbon.protocols; every case goes through the line, UDP and pickle listeners. Oracle = evaluator '
        'written from whitelist.conf.example/blacklist.conf.example and the statement: dropped iff blacklisted, or '
        'whitelist non-empty and not whitelisted, or NaN; admitted datapoints unchanged except -1 -> now and floor to '
        'the resolution; reject counters sum to the model count; all listeners agree. Non-trivial = both lists '
        'non-empty with a name in each outcome class, or a -1 timestamp with a resolution; distinct by hash of the case.')
ASSUMPTIONS = [
  'pattern test is regex *search* as documented ("match one of these expressions"); unrestricted regexes are evaluated with re for list semantics only',
  'a line is a comment when it starts with # in column 0; blank and invalid lines contribute nothing',
  'timestamps are >= 0 or exactly -1 (the documented "use current time" marker)',
]
SIGNATURES = ()

NOW = 1600000007.25


@st.composite
def list_file(draw):
  """-> (file text, [matcher entries])"""
  lines = []
  entries = []
  for _ in range(draw(st.integers(0, 6))):
    k = draw(st.integers(0, 9))
    if k <= 4:
      p = draw(rx.patterns())
      pad = draw(st.sampled_from(['', '', ' ', '\t']))
      lines.append(p['text'] + pad)
      entries.append(p)
    elif k <= 6:
      # half of the time from the entries with capturing groups / back-references / conditionals
      t = draw(st.one_of(st.sampled_from(rx.FREE_POOL), st.sampled_from(rx.FREE_POOL[:5] + [r'(web|db)\.'])))
      lines.append(t)
      entries.append({'kind': 'free', 'text': t})
    elif k == 7:
      lines.append(draw(st.sampled_from(['', '   ', '\t'])))
    elif k == 8:
      lines.append('#' + draw(st.sampled_from([' comment', '.*', '^a', ' servers\\.'])))
    else:
      lines.append(draw(st.sampled_from(rx.INVALID_POOL)))
  text = '\n'.join(lines) + ('\n' if lines and draw(st.booleans()) else '')
  return text, entries


def value_strategy():
  return st.one_of(st.sampled_from([float('nan'), float('inf'), float('-inf'), 0.0, -1.0, 1.5]),
                   st.floats(allow_nan=True), st.integers(-1000, 1000).map(float))


def ts_strategy():
  return st.one_of(st.sampled_from([-1, -1, 0, 59, 60, 61, 1600000000]), st.integers(0, 2**32),
                   st.floats(0, 2.0**32, allow_nan=False).map(lambda x: round(x, 3)),
                   st.sampled_from([-1.0, 119.999, 1600000059.5]))


@st.composite
def cases(draw):
  gens = []
  for _ in range(draw(st.sampled_from([1, 2, 2, 3]))):
    wl_text, wl = draw(list_file())
    bl_text, bl = draw(list_file())
    if len(gens) >= 1 and draw(st.integers(0, 2)) == 0:
      # the same rules deployed again (e.g. after the file had been removed for a while)
      back = gens[draw(st.integers(0, len(gens) - 1))]
      wl_text, wl, bl_text, bl = back['whitelist'], back['wl'], back['blacklist'], back['bl']
    if draw(st.integers(0, 3)) == 0:
      wl_text, wl = '', []
    if draw(st.integers(0, 3)) == 0:
      bl_text, bl = '', []
    pats = [p for p in wl + bl if p['kind'] != 'free']
    names = rx.names_for(pats)
    if any(p['kind'] == 'free' for p in wl + bl):
      names = st.one_of(names, st.sampled_from(['servers.db.db.queries', 'web.web', 'cpu11.load', 'x.prod.prod', 'b.count', 'a.b',
                                                 'db.web', 'db.db', 'x22', 'a.', 'carbon.cpu']))
    pts = []
    # the lists judge the name as it was received: tagged, with unsorted tags, or with something that only looks like tags
    tails = st.sampled_from(['', '', '', '', '', ';env=prod', ';b=2;a=1', ';cpu=1;a=web', ';x', ';=v', ';a=', ';;'])
    for _ in range(draw(st.integers(1, 10))):
      pts.append([draw(names) + draw(tails), draw(ts_strategy()), draw(value_strategy())])
    if gens and draw(st.booleans()):
      # the same series keep arriving after the lists changed
      pts = pts + [[p[0], draw(ts_strategy()), draw(value_strategy())] for p in gens[-1]['points'][:6]]
    gens.append({'whitelist': wl_text, 'blacklist': bl_text, 'wl': wl, 'bl': bl, 'points': pts,
                 'edited_during_read': draw(st.integers(0, 4)) == 0,
                 'wl_missing': draw(st.integers(0, 7)) == 0, 'bl_missing': draw(st.integers(0, 7)) == 0})
  if draw(st.integers(0, 5)) == 0:
    # a list file removed for a while and then deployed again with the same rules (new mtime, perhaps a new comment)
    g0 = gens[0]
    which = draw(st.sampled_from(['wl', 'bl', 'both']))
    gone = dict(g0, wl_missing=which in ('wl', 'both'), bl_missing=which in ('bl', 'both'))
    again = dict(g0, wl_missing=False, bl_missing=False,
                 whitelist=draw(st.sampled_from(['', '# redeployed\n'])) + g0['whitelist'],
                 blacklist=draw(st.sampled_from(['', '# redeployed\n\n'])) + g0['blacklist'])
    gens = [dict(g0, wl_missing=False, bl_missing=False), gone, again]
  return {'generations': gens, 'resolution': draw(st.sampled_from([0, 0, 1, 10, 60])), 'symlinked': draw(st.integers(0, 3)) == 0}


def entry_matches(e, name):
  if e['kind'] == 'free':
    return re.search(e['text'], name) is not None
  return rx.matches(e, name)


def model(gen_, res):
  """-> (expected admitted list, rejected-by-lists count, classes)"""
  out = []
  rejected = [0, 0]      # [rejected by the lists with a non-NaN value, rejected by the lists in total]
  classes = set()
  wl, bl = gen_['wl'], gen_['bl']
  if gen_.get('wl_missing'):
    wl = []
  if gen_.get('bl_missing'):
    bl = []
  for name, ts, val in gen_['points']:
    if bl and any(entry_matches(e, name) for e in bl):
      rejected[1] += 1
      rejected[0] += 1 if val == val else 0
      classes.add('blacklisted')
      continue
    if wl and not any(entry_matches(e, name) for e in wl):
      rejected[1] += 1
      rejected[0] += 1 if val == val else 0
      classes.add('not whitelisted')
      continue
    if val != val:
      classes.add('NaN dropped')
      continue
    if ts == -1:
      ts2 = NOW
      classes.add('-1 -> now')
    else:
      ts2 = float(ts)
    if res:
      ts2 = math.floor(ts2) // res * res
      if ts == -1:
        classes.add('-1 with resolution')
    out.append([name, ts2, val])
    classes.add('admitted')
  return out, rejected, classes


def fmt_num(x):
  if isinstance(x, int):
    return '%d' % x
  if x != x:
    return 'nan'
  if x in (float('inf'), float('-inf')):
    return 'inf' if x > 0 else '-inf'
  return repr(float(x))


def execute(ctx, case):
  b = env.bootstrap()
  res = case['resolution']
  saved_time = b.protocols.time

  class FakeTimeMod(object):
    @staticmethod
    def time():
      return NOW
  all_classes = set()
  nontrivial = False
  try:
    for kind in ('line', 'udp', 'pickle'):
      env.reset(MIN_TIMESTAMP_RESOLUTION=res, USE_WHITELIST=True)
      b.protocols.time = FakeTimeMod
      WL, BL = b.regexlist.WhiteList, b.regexlist.BlackList
      wl_path = os.path.join(b.conf_dir, 'whitelist.conf')
      bl_path = os.path.join(b.conf_dir, 'blacklist.conf')
      for pth in (wl_path, bl_path, wl_path + '.real', bl_path + '.real'):
        if os.path.lexists(pth):
          os.unlink(pth)
      WL.list_file, BL.list_file = wl_path, bl_path
      if case.get('symlinked'):
        # the configured paths are symbolic links (config-management releases, a mounted config volume): the files
        # they point to are what gets written, removed and edited
        os.symlink(wl_path + '.real', wl_path)
        os.symlink(bl_path + '.real', bl_path)
      real = (lambda p_: p_ + '.real') if case.get('symlinked') else (lambda p_: p_)
      rec = env.Recorder(b.events.metricReceived)
      lst = wire.Listener(kind)
      mtime = 1000000000
      for gi, g in enumerate(case['generations']):
        mtime += 100
        for pth, text, missing in ((real(wl_path), g['whitelist'], g.get('wl_missing')), (real(bl_path), g['blacklist'], g.get('bl_missing'))):
          if missing:
            if os.path.exists(pth):
              os.unlink(pth)
            continue
          with open(pth, 'w') as f:
            f.write(text)
          os.utime(pth, (mtime, mtime))
        nxt = case['generations'][gi + 1] if gi + 1 < len(case['generations']) else None
        spying = bool(g.get('edited_during_read')) and nxt is not None and not g.get('wl_missing') and not g.get('bl_missing') \
            and not nxt.get('wl_missing') and not nxt.get('bl_missing')
        if spying:
          # an operator saves the next version of the list files while this one is being read (after the daemon has
          # the old lines in hand): the next poll has to pick the new version up
          next_text = {os.path.realpath(real(wl_path)): nxt['whitelist'], os.path.realpath(real(bl_path)): nxt['blacklist']}
          fired = set()

          def deploy_next(path_, when=mtime + 100):
            # (each file is replaced right after the daemon has read it, not the other one)
            rp_ = os.path.realpath(path_)
            if rp_ in next_text and rp_ not in fired:
              fired.add(rp_)
              with open(rp_, 'w') as f2:
                f2.write(next_text[rp_])
              os.utime(rp_, (when, when))

          class SpyFile(object):
            def __init__(self, f_, path_):
              self.f = f_
              self.path = path_

            def __iter__(self):
              for line in self.f:
                yield line
              deploy_next(self.path)

            def readlines(self, *a):
              out = self.f.readlines(*a)
              deploy_next(self.path)
              return out

            def read(self, *a):
              out = self.f.read(*a)
              deploy_next(self.path)
              return out

            def __enter__(self):
              return self

            def __exit__(self, *a):
              self.f.close()

            def __getattr__(self, name):
              return getattr(self.f, name)
          b.regexlist.open = lambda path_, *a, **kw: SpyFile(open(path_, *a, **kw), path_)
        try:
          try:
            WL.read_list()
            BL.read_list()
          finally:
            if spying:
              try:
                del b.regexlist.open
              except AttributeError:
                pass
        except Exception as e:  # noqa
          ctx.fail('C12:read_list-raised:%s' % type(e).__name__, 'read_list() raised %r for files %r / %r' % (
            e, g['whitelist'], g['blacklist']), case, 'list-loading')
          return
        del rec.items[:]
        stats0 = dict(b.instrumentation.stats)
        pts = g['points']
        if kind == 'line':
          data = b''.join(('%s %s %s\n' % (n, fmt_num(v), fmt_num(t))).encode('utf-8') for n, t, v in pts)
          lst.feed(data)
        elif kind == 'udp':
          data = '\n'.join('%s %s %s' % (n, fmt_num(v), fmt_num(t)) for n, t, v in pts).encode('utf-8')
          lst.datagram(data)
        else:
          payload = pickle.dumps([(n, (t, v)) for n, t, v in pts], protocol=2)
          lst.feed(struct.pack('!I', len(payload)) + payload)
        if lst.escaped:
          ctx.fail('C12:exception-escaped', '%s listener: %r' % (kind, lst.escaped[0]), case)
          return
        want, rejected, classes = model(g, res)
        all_classes |= classes
        got = [[m, dp[0], dp[1]] for m, dp in rec.items]
        ok = len(got) == len(want)
        if ok:
          for gg, ww in zip(got, want):
            same_val = (gg[2] == ww[2]) or (gg[2] != gg[2] and ww[2] != ww[2])
            if not (gg[0] == ww[0] and gg[1] == ww[1] and same_val):
              ok = False
            if res and not isinstance(gg[1], int) and float(gg[1]) != math.floor(gg[1]):
              ok = False
        if not ok:
          ctx.fail('C12:admission-mismatch:%s' % kind,
                   '%s listener, generation %d, resolution %s, whitelist %r blacklist %r: delivered %r, the admission rules '
                   'give %r for input %r' % (kind, gi, res, g['whitelist'], g['blacklist'], got, want, pts), case, 'admission')
          return
        st1 = b.instrumentation.stats
        d = (st1.get('blacklistMatches', 0) - stats0.get('blacklistMatches', 0) +
             st1.get('whitelistRejects', 0) - stats0.get('whitelistRejects', 0))
        if not rejected[0] <= d <= rejected[1]:
          ctx.fail('C12:reject-counters', '%s listener: blacklistMatches+whitelistRejects moved by %d, %d..%d datapoints were '
                   'rejected by the lists' % (kind, d, rejected[0], rejected[1]), case, 'counters')
          return
        if g['wl'] and g['bl'] and {'blacklisted', 'not whitelisted', 'admitted'} <= classes:
          nontrivial = True
        if '-1 with resolution' in classes:
          nontrivial = True
      lst.close()
  finally:
    b.protocols.time = saved_time
  ctx.note(case, nontrivial=nontrivial, classes=['resolution=%s' % res, 'generations=%d' % len(case['generations'])] + sorted(all_classes))


def run(ctx):
  for p in rx.INVALID_POOL:
    try:
      re.compile(p)
    except re.error:
      continue
    from ..core import HarnessError
    raise HarnessError('pool entry %r is a valid regex' % p)
  run_given(ctx, cases(), execute, ctx.scale(900, 5000), salt=1)
