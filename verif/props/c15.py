"""C15 - what a relay's client encodes is what the next daemon's listener decodes."""
import fractions
import math
import struct

from hypothesis import strategies as st

from .. import env, gen, simreactor, wire
from ..core import HarnessError
from ..hyp import run_given
from . import c01

LEVEL = 'exploration'
RULE = ('Lists of 1-60 datapoints (whitespace-free names incl. reserved punctuation and non-ASCII; timestamps in [0, 2^32) '
        'ints and floats; values: random 64-bit patterns as doubles, boundary magnitudes 10^k (k in -12..308) +-1 ulp, +-inf, '
        '+-0.0, ints up to +-2^64) queued through the real CarbonClientFactory.sendDatapoint, transmitted by the pickle or '
        'line client protocol in messages of MAX_DATAPOINTS_PER_MESSAGE in 1..N+1 (deferred sends fired by a simulated '
        'reactor clock), and the bytes written to the client transport are fed under a generated segmentation to the '
        'matching listener. Oracle: same count, order and names; pickle: timestamp and value identical as doubles; line: '
        'timestamp == int(ts), |v\'-v| <= 5e-11 or <= 1 ulp, +-inf preserved, ints exact to 2^53. Non-trivial = >= 2 messages '
        'and a value with |v| < 1e-6 or > 1e15 or a non-integer timestamp; distinct by hash of the case.')
ASSUMPTIONS = [
  'protobuf client/listener not covered (google.protobuf absent)',
  'NaN values are not in the domain (the listener filters them, C12)',
  'client and listener are joined at the transport boundary: bytes written to a StringTransport are fed to the listener protocol',
]
SIGNATURES = ('line-decimal-rounding-plus-half-ulp',)


def ulp(x):
  return math.ulp(x) if math.isfinite(x) else 0.0


@st.composite
def values(draw):
  k = draw(st.integers(0, 9))
  if k <= 2:
    return draw(gen.raw_doubles())
  if k == 3:
    e = draw(st.integers(-12, 308))
    x = float('1e%d' % e)
    d = draw(st.sampled_from([0, 1, -1]))
    x = x + d * math.ulp(x)
    return -x if draw(st.booleans()) else x
  if k == 4:
    return draw(st.sampled_from([float('inf'), float('-inf'), 0.0, -0.0, 100.0, 1.0, 0.5, 1e-10, 5e-11, 4.9e-11, 1e15, 1e16,
                                 123456789.123456789, 0.1 + 0.2, 1e22, 2.0**53, 2.0**63]))
  if k == 5:
    return draw(st.integers(-2**64, 2**64))
  if k == 6:
    return draw(st.integers(-1000, 1000))
  return draw(st.floats(-1e6, 1e6, allow_nan=False))


@st.composite
def cases(draw):
  n = draw(st.integers(1, 60))
  pts = []
  for _ in range(n):
    ts = draw(st.one_of(st.integers(0, 2**32 - 1), st.floats(0, 2.0**32 - 1, allow_nan=False),
                        st.sampled_from([0, 1, 2**31, 2**32 - 1, 1500000000.999, 0.5])))
    pts.append([draw(gen.metric_names(max_tokens=4)), ts, draw(values())])
  return {'protocol': draw(st.sampled_from(['pickle', 'line'])), 'points': pts,
          'batch': draw(st.one_of(st.integers(1, n + 1), st.sampled_from([1, 2, 3, 500]))),
          'cuts': draw(st.lists(st.integers(1, 4000), max_size=8)),
          # a TCP-like transport that pauses its producer from inside write() once this many bytes are pending
          'pause_after': draw(st.sampled_from([None, None, 40, 300, 4000])),
          # the receiving daemon pauses / resumes its receivers (back-pressure) while the stream arrives
          'flow': draw(c01.flow_events(n))}


def execute(ctx, case):
  proto = case['protocol']
  try:
    b, client, sim = simreactor.load_client(MAX_DATAPOINTS_PER_MESSAGE=case['batch'], DESTINATION_PROTOCOL=proto,
                                            MAX_QUEUE_SIZE=100000, USE_FLOW_CONTROL=False)
    cls = client.CarbonClientFactory.plugins.get(proto)
    if cls is None:
      raise HarnessError('client protocol plugin %r is gone' % proto)

    class Router(object):
      def hasDestination(self, d):
        return True

      def addDestination(self, d):
        pass

      def removeDestination(self, d):
        pass

      def countDestinations(self):
        return 1
    factory = cls(('10.0.0.9', 2004, 'a'), Router())
    sim.pause_threshold = case.get('pause_after')
    factory.startConnecting()
    conn = sim.connectors[-1]
    conn.sim_connected()
    try:
      for name, ts, val in case['points']:
        factory.sendDatapoint(name, (ts, val))
      sim.settle(horizon=1.0)
      for _ in range(len(case['points']) * 4 + 10):
        if not conn.transport.drain():      # the peer reads, the transport lets the producer go on
          break
        sim.settle(horizon=1.0)
    except HarnessError:
      raise
    except Exception as e:  # noqa
      ctx.fail('C15:client-raised:%s' % type(e).__name__, '%s client protocol raised %r while sending (datapoints popped from '
               'the queue for that message are gone)' % (proto, e), case, 'no-drop')
      return
    if factory.queue:
      ctx.fail('C15:queue-not-transmitted', 'connected, timers settled, %d datapoints still queued' % len(factory.queue), case)
      return
    data = conn.transport.value()
  finally:
    simreactor.restore_client()
  # count messages
  if proto == 'pickle':
    nmsg, off = 0, 0
    while off + 4 <= len(data):
      (ln,) = struct.unpack('!I', data[off:off + 4])
      off += 4 + ln
      nmsg += 1
  else:
    nmsg = -(-len(case['points']) // max(1, case['batch']))
  if case.get('recv_max_length'):
    # the receiving daemon's operator raised the frame limit (carbon.conf PICKLE_RECEIVER_MAX_LENGTH)
    env.reset(PICKLE_RECEIVER_MAX_LENGTH=case['recv_max_length'])
  else:
    env.reset()
  rec = env.Recorder(b.events.metricReceived)
  c01.FlowControl(b, case.get('flow'))
  lst = wire.Listener(proto)
  lst.feed(data, [c for c in case['cuts'] if 0 < c < len(data)])
  if lst.escaped:
    ctx.fail('C15:listener-raised', 'listener raised %r on client output' % (lst.escaped[0],), case)
    return
  if lst.transport.disconnecting:
    ctx.fail('C15:listener-closed', 'listener closed the connection on client output', case)
    return
  got = list(rec.items)
  pts = case['points']
  known_band = False
  if len(got) != len(pts):
    ctx.fail('C15:count-mismatch', '%d datapoints sent with %s protocol in batches of %d, %d ingested' % (
      len(pts), proto, case['batch'], len(got)), case, 'no-merge-drop')
    return
  for i, ((name, ts, val), (gname, gdp)) in enumerate(zip(pts, got)):
    ok = gname == name
    gts, gval = gdp
    if proto == 'pickle':
      ok = ok and wire.same_double(gts, ts) and wire.same_double(gval, val)
    else:
      ok = ok and float(gts) == float(int(ts))
      v = float(val)
      if math.isinf(v):
        ok = ok and gval == v
      elif isinstance(val, int) and abs(val) <= 2**53:
        ok = ok and gval == v
      else:
        # exact rational arithmetic: float subtraction would itself round
        diff = abs(fractions.Fraction(gval) - fractions.Fraction(v)) if math.isfinite(gval) else None
        tol = fractions.Fraction(5, 10**11)
        u = fractions.Fraction(ulp(v))
        if diff is None:
          ok = False
        elif diff <= tol or diff <= u:
          pass
        elif ok and diff <= tol + u / 2:
          # '%.10f' rounds to 10 decimals (<= 5e-11 away) and float() then rounds to the nearest
          # double (<= ulp/2 more): for |v| around 1e5..1e6 the two doubles can be 2 ulp = 5.8e-11 apart
          ctx.fail('line-decimal-rounding-plus-half-ulp',
                   'line protocol: %r arrives as %r, off by %.3e (> 5e-11 and > 1 ulp=%.3e, within 5e-11 + ulp/2)' % (
                     v, gval, float(diff), float(u)), case, 'round-trip')
          known_band = True
        else:
          ok = False
    if not ok:
      ctx.fail('C15:datapoint-altered:%s' % proto, '%s protocol, batch %d: datapoint %d sent as %r arrived as %r' % (
        proto, case['batch'], i, (name, ts, val), (gname, gdp)), case, 'round-trip')
      return
  big = any(isinstance(v, float) and (0 < abs(v) < 1e-6 or (abs(v) > 1e15 and math.isfinite(v))) for _, _, v in pts)
  fts = any(isinstance(t, float) and t != int(t) for _, t, _ in pts)
  pushed = getattr(conn.transport, 'pushed_back', 0)
  ctx.note(case, nontrivial=nmsg >= 2 and (big or fts), classes=[proto, 'messages>=2' if nmsg >= 2 else 'one message'] +
           (['transport pushed back mid-stream'] if pushed else []) +
           (['frame above the default limit, limit raised'] if case.get('recv_max_length') else []) +
           (['extreme magnitude'] if big else []) + (['fractional timestamp'] if fts else []) +
           (['known finding: 5e-11 + half ulp band'] if known_band else []))


def big_frame_cases(ctx):
  """Messages of the default 500 datapoints with long names exceed the default 1 MiB frame limit; with the limit
  raised on the receiving side they have to get through like any other."""
  for pad, cuts in ((2400, []), (2200, [3, 70000, 1048576, 1048580])):
    pts = [['servers.%s.%d' % ('x' * pad, i), 1500000000 + i, float(i)] for i in range(500)]
    yield {'protocol': 'pickle', 'points': pts, 'batch': 500, 'cuts': cuts, 'pause_after': None, 'recv_max_length': 8 * 2**20}


def run(ctx):
  if (ctx.shard or 0) == 0:
    for case in big_frame_cases(ctx):
      execute(ctx, case)
  run_given(ctx, cases(), execute, ctx.scale(600, 5000), salt=1)
