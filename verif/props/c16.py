"""C16 - rule-based and aggregation-aware routing follow their rule files."""
import itertools
import os
import re

from hypothesis import strategies as st

from .. import env
from ..core import HarnessError
from ..hyp import run_given
from ..ref import aggpat, rx
from ..ref import ring as refring
from . import c05

LEVEL = 'exploration'
RULE = ('(a) relay-rules FILES with 1-6 pattern sections in generated order (restricted-grammar patterns evaluated by a '
        're-free matcher, unrestricted regexes, continue true/false/absent in several spellings, the default=true section '
        'at any position, default=false sections, destination lists incl. bracketed IPv6 and instance-less forms) loaded by '
        'RelayRulesRouter; configured-destination subsets via addDestination/removeDestination; mixed-case names that hit '
        'and miss. Oracle = evaluator written from relay-rules.conf.example (file order, default last, stop after the first '
        'matching rule without continue, only configured destinations), compared as sets. (b) aggregation-rules files from '
        'the documented pattern language loaded by the aggregated routers\' own constructor, destination sets/RF/diverse '
        'as C05: set(getDestinations(m)) must equal the union over the aggregate names an independent pattern matcher '
        'derives for m (or {m}) of the reference ring\'s replica sets (fast variant: of the plain fast router). Non-trivial '
        '= name matching >= 2 sections with a continue chain, or two distinct inputs of one aggregate with >= 2 '
        'destinations; distinct by hash of the case.')
ASSUMPTIONS = [
  'relay rule patterns are compiled case-insensitively (re.I) and applied with search, as loadRelayRules does and the example documents ("Regex pattern to match against the metric name")',
  'only valid rule files are generated (exactly one default = true section, every section has destinations)',
  'fast-aggregated-hashing is compared with the plain fast-hashing router (no published reference for FastHashRing); mmh3_ch not covered',
  'when a <<field>> pattern admits several bindings, any of them is accepted',
]
SIGNATURES = ()

DESTS = [('127.0.0.1', 2004, 'a'), ('127.0.0.1', 2104, 'b'), ('10.1.2.4', 2004, None), ('::1', 2004, 'v6'),
         ('fe80::1', 2204, None), ('myserver.mydomain.com', 2004, 'x'), ('10.1.2.5', 2004, 'a')]


def dest_text(d, style):
  server, port, inst = d
  host = '[%s]' % server if ':' in server else server
  s = '%s:%d' % (host, port)
  if inst is not None:
    s += ':' + inst
  return {0: s, 1: ' ' + s, 2: s + ' '}[style]


@st.composite
def rules_cases(draw):
  sections = []
  n = draw(st.integers(1, 6))
  default_pos = draw(st.integers(0, n))
  pats = []
  secnames = draw(st.permutations(['alpha', 'bravo', 'Charlie', 'delta', 'echo', 'zulu', 'mike', 'x-ray', '10', '2', 'default']))
  for i in range(n + 1):
    dests = draw(st.lists(st.sampled_from(range(len(DESTS))), min_size=1, max_size=3, unique=True))
    styles = [draw(st.integers(0, 2)) for _ in dests]
    if i == default_pos:
      sections.append({'name': secnames[i], 'kind': 'default', 'dests': dests, 'styles': styles,
                       'true_text': draw(st.sampled_from(['true', 'True', 'yes', '1', 'on']))})
      continue
    k = draw(st.integers(0, 9))
    if k == 0:
      sections.append({'name': secnames[i], 'kind': 'default-false', 'dests': dests, 'styles': styles,
                       'false_text': draw(st.sampled_from(['false', 'no', '0', 'off']))})
      continue
    if k <= 7:
      p = draw(rx.patterns())
      pats.append(p)
    else:
      p = {'kind': 'free', 'text': draw(st.sampled_from(rx.FREE_POOL))}
    cont = draw(st.sampled_from([None, None, 'true', 'false', 'yes', 'no', '1', '0', 'True', 'on']))
    sections.append({'name': secnames[i], 'kind': 'pattern', 'pattern': p, 'dests': dests, 'styles': styles, 'continue': cont})
  names = draw(st.lists(rx.names_for(pats), min_size=1, max_size=10))
  names = [draw(st.sampled_from([nm, nm, nm.upper(), nm.title()])) for nm in names]
  # tagged series are matched by the full name as received, tags included
  names = [nm + draw(st.sampled_from(['', '', '', ';env=prod', ';dc=web;cpu=1', ';b=2;a=count'])) for nm in names]
  configured = draw(st.lists(st.sampled_from(range(len(DESTS))), unique=True, max_size=len(DESTS)))
  removed = draw(st.lists(st.sampled_from(configured), unique=True, max_size=2)) if configured else []
  return {'kind': 'rules', 'sections': sections, 'names': [n for n in names if n], 'configured': configured, 'removed': removed}


def render_rules(case):
  out = []
  for s in case['sections']:
    out.append('[%s]' % s['name'])
    if s['kind'] == 'default':
      out.append('default = %s' % s['true_text'])
    elif s['kind'] == 'default-false':
      out.append('default = %s' % s['false_text'])
    else:
      out.append('pattern = %s' % s['pattern']['text'])
      if s['continue'] is not None:
        out.append('continue = %s' % s['continue'])
    out.append('destinations = %s' % ','.join(dest_text(DESTS[d], st_) for d, st_ in zip(s['dests'], s['styles'])))
    out.append('')
  return '\n'.join(out) + '\n'


TRUE = ('true', 'yes', '1', 'on')


def rule_matches(p, name):
  if p['kind'] == 'free':
    return re.search(p['text'], name, re.I) is not None
  return rx.matches(p, name, ignore_case=True)


def expected_rules(case, name):
  live = set(case['configured']) - set(case['removed'])
  out = set()
  nmatch = 0
  chain = False
  ordered = [s for s in case['sections'] if s['kind'] == 'pattern'] + [s for s in case['sections'] if s['kind'] == 'default']
  for s in ordered:
    if s['kind'] == 'default' or rule_matches(s['pattern'], name):
      nmatch += 1
      out |= set(d for d in s['dests'] if d in live)
      cont = s['kind'] == 'pattern' and s['continue'] is not None and s['continue'].lower() in TRUE
      if not cont:
        break
      chain = True
  return out, nmatch, chain


def execute_rules(ctx, case):
  b = env.bootstrap()
  env.reset()
  path = os.path.join(b.conf_dir, 'relay-rules.conf')
  text = render_rules(case)
  with open(path, 'w') as f:
    f.write(text)
  settings = c05.FakeSettings({'relay-rules': path})
  cls = b.routers.DatapointRouter.plugins.get('rules')
  if cls is None:
    raise HarnessError('rules router plugin is gone')
  try:
    router = cls(settings)
  except Exception as e:  # noqa
    ctx.fail('C16:rules-file-rejected:%s' % type(e).__name__, 'valid relay-rules file rejected with %r:\n%s' % (e, text), case, 'load')
    return
  for d in case['configured']:
    router.addDestination(DESTS[d])
  for d in case['removed']:
    router.removeDestination(DESTS[d])
  nt = False
  classes = set()
  for name in case['names']:
    want, nmatch, chain = expected_rules(case, name)
    try:
      got = list(router.getDestinations(name))
    except Exception as e:  # noqa
      ctx.fail('C16:getDestinations-raised:%s' % type(e).__name__, 'getDestinations(%r) raised %r' % (name, e), case)
      return
    want_d = set(DESTS[d] for d in want)
    if set(got) != want_d:
      ctx.fail('C16:rules-routing-mismatch',
               'metric %r routed to %r; the rule file gives %r (configured: %r)\n%s' % (
                 name, sorted(set(got), key=repr), sorted(want_d, key=repr),
                 sorted((DESTS[d] for d in set(case['configured']) - set(case['removed'])), key=repr), text),
               dict(case, names=[name]), 'rules')
      return
    if nmatch >= 2 and chain:
      nt = True
      classes.add('continue chain over >=2 matching sections')
    if nmatch == 1:
      classes.add('falls to default or single match')
  if case['removed']:
    classes.add('destination removed')
  ctx.note(case, nontrivial=nt, classes=['rules'] + sorted(classes))


# ---- aggregation-aware hashing --------------------------------------------------
@st.composite
def agg_cases(draw):
  rules = [draw(aggpat.rules(idx=i)) for i in range(draw(st.integers(0, 4)))]
  conf = draw(c05.configs())
  # several aggregates of the same inputs (same input pattern, different output / method): legal and common
  if rules and draw(st.integers(0, 2)) == 0:
    r = draw(st.sampled_from(rules))
    rules.append(dict(r, output='also%d.%s' % (len(rules), r['output']), method=draw(st.sampled_from(['sum', 'count', 'max']))))
  # optionally a second generation of the rules file, picked up by the rule manager's reload while the router lives
  rules2 = None
  if draw(st.integers(0, 2)) == 0:
    rules2 = [draw(aggpat.rules(idx=10 + i)) for i in range(draw(st.integers(0, 3)))]
    if rules and draw(st.booleans()):
      # an edit that keeps a rule's input pattern and renames its aggregate
      r = draw(st.sampled_from(rules))
      rules2.append(dict(r, output='renamed.' + r['output']))
  removed = False
  if rules2 is None and rules and draw(st.integers(0, 3)) == 0:
    rules2, removed = [], True          # second generation: the file is gone, no rules apply any more
  names = draw(st.lists(aggpat.names_for(rules + (rules2 or [])), min_size=2, max_size=12))
  return {'kind': 'agg', 'rules': rules, 'rules2': rules2, 'styles': [draw(st.integers(0, 1)) for _ in rules],
          'dests': conf['dests'], 'rf': conf['rf'], 'diverse': conf['diverse'], 'hash': conf['hash'],
          'router': draw(st.sampled_from(['aggregated-consistent-hashing', 'aggregated-consistent-hashing',
                                          'fast-aggregated-hashing'])),
          'names': [n for n in names if n], 'comment_lines': draw(st.booleans()), 'rules2_file_removed': removed,
          'same_second': draw(st.integers(0, 2)) == 0,
          # the documented name-lookup cache of the rules (off by default)
          'cache': draw(st.sampled_from(['off', 'off', 'lru', 'ttl']))}


def ref_destinations(case, ref, key):
  pref = ref.preference(key)
  ports = {(d[0], d[2]): d[1] for d in case['dests']}
  out = []
  if case['diverse']:
    used = set()
    for server, inst in pref:
      if server in used:
        continue
      used.add(server)
      out.append((server, ports[(server, inst)], inst))
      if len(used) >= case['rf']:
        break
  else:
    for server, inst in pref[:case['rf']]:
      out.append((server, ports[(server, inst)], inst))
  return set(out)


def execute_agg(ctx, case):
  b = env.bootstrap()
  cmax, cttl = {'off': (0, 0), 'lru': (50, 0), 'ttl': (50, 300)}[case.get('cache', 'off')]
  env.reset(CACHE_METRIC_NAMES_MAX=cmax, CACHE_METRIC_NAMES_TTL=cttl)
  path = os.path.join(b.conf_dir, 'aggregation-rules.conf')
  lines = []
  if case.get('comment_lines'):
    lines += ['# generated', '']
  for r, style in zip(case['rules'], case['styles']):
    lines.append(aggpat.render(r, style))
  with open(path, 'w') as f:
    f.write('\n'.join(lines) + '\n')
  # a file written in the past, like every real rules file (sub-second mtimes: file systems have them)
  t1 = 1500000000.25 if case.get('same_second') else 1500000000
  os.utime(path, (t1, t1))
  RM = b.rules.RuleManager
  RM.rules_last_read = 0.0
  settings = c05.FakeSettings(REPLICATION_FACTOR=case['rf'], DIVERSE_REPLICAS=case['diverse'], ROUTER_HASH_TYPE=c05.as_configured(case['hash']),
                              CACHE_METRIC_NAMES_MAX=0, CACHE_METRIC_NAMES_TTL=0)
  settings['aggregation-rules'] = path
  cls = b.routers.DatapointRouter.plugins.get(case['router'])
  if cls is None:
    raise HarnessError('router plugin %r is gone' % case['router'])
  try:
    router = cls(settings)
  except Exception as e:  # noqa
    ctx.fail('C16:aggregation-rules-rejected:%s' % type(e).__name__, 'rule file rejected: %r\n%s' % (e, '\n'.join(lines)), case)
    return
  finally:
    task = getattr(RM, 'read_task', None)
    if task is not None and getattr(task, 'running', False):
      task.stop()
  for d in case['dests']:
    router.addDestination(tuple(d))
  fast = case['router'].startswith('fast')
  if fast:
    plain = b.routers.DatapointRouter.plugins['fast-hashing'](settings)
    for d in case['dests']:
      plain.addDestination(tuple(d))
    def base(key):
      return set(plain.getDestinations(key))
  else:
    ref = refring.RefRing(case['hash'])
    for d in case['dests']:
      ref.add((d[0], d[2]))
    def base(key):
      return ref_destinations(case, ref, key)
  by_agg = {}
  nt = False
  generations = [case['rules']]
  if case.get('rules2') is not None:
    generations.append(case['rules2'])
  for gi, current_rules in enumerate(generations):
    if gi == 1:
      if case.get('rules2_file_removed'):
        # the rules file disappears: the manager clears its rules at the next re-read (no mtime to look at)
        os.unlink(path)
      else:
        with open(path, 'w') as f:
          f.write('\n'.join(aggpat.render(r, 0) for r in current_rules) + '\n')
        t2 = 1500000000.75 if case.get('same_second') else 1500000100     # possibly edited within the same second
        os.utime(path, (t2, t2))
      try:
        RM.read_rules()          # what the manager's 10 s reload task calls
      except Exception as e:  # noqa
        ctx.fail('C16:aggregation-rules-rejected:%s' % type(e).__name__, 'reloading the rule file raised %r' % (e,), case)
        return
      by_agg = {}
      lines = [aggpat.render(r, 0) for r in current_rules]
    for name in case['names']:
      try:
        got = set(router.getDestinations(name))
      except Exception as e:  # noqa
        ctx.fail('C16:getDestinations-raised:%s' % type(e).__name__, 'getDestinations(%r) raised %r' % (name, e), case)
        return
      per_rule = [aggpat.aggregates(r, name) for r in current_rules]
      per_rule = [a for a in per_rule if a]
      if not per_rule:
        options = [set(base(name))]
        chosen = [[name]]
      else:
        options = []
        chosen = []
        for combo in itertools.islice(itertools.product(*per_rule), 64):
          u = set()
          for a in combo:
            u |= base(a)
          options.append(u)
          chosen.append(list(combo))
      if got not in options:
        ctx.fail('C16:aggregate-routing-mismatch',
                 'router %s%s: metric %r -> %r; its aggregate names %r hash to %r\nrules:\n%s' % (
                   case['router'], ' (after the rules file was reloaded)' if gi else '', name, sorted(got, key=repr), chosen[0],
                   sorted(options[0], key=repr), '\n'.join(lines)),
                 dict(case, names=[name]), 'aggregate-hash')
        return
      if per_rule and len(per_rule) == 1 and len(per_rule[0]) == 1:
        a = per_rule[0][0]
        by_agg.setdefault(a, set()).add(name)
        if len(by_agg[a]) >= 2 and len(case['dests']) >= 2:
          nt = True
  ctx.note(case, nontrivial=nt, classes=['agg', case['router'], 'rules=%d' % len(case['rules'])] + (['rules reloaded after construction'] if case.get('rules2') is not None else []) +
           (['two inputs of one aggregate'] if nt else []))


def execute(ctx, case):
  if case['kind'] == 'rules':
    return execute_rules(ctx, case)
  return execute_agg(ctx, case)


def run(ctx):
  refring.selfcheck()
  run_given(ctx, rules_cases(), execute, ctx.scale(700, 3000), salt=1)
  run_given(ctx, agg_cases(), execute, ctx.scale(500, 2500), salt=2)
