"""C09 - back-pressure always lets go: paused receivers are resumed once buffers drain."""
from hypothesis import strategies as st
from twisted.application.service import MultiService
from twisted.internet.testing import StringTransport

from .. import cachesim, env, relaysim
from ..core import HarnessError
from ..hyp import run_given
from . import c02, c07

LEVEL = 'exploration'
RULE = ('Cache side: MAX_CACHE_SIZE 1-6 with USE_FLOW_CONTROL, wiring done by carbon\'s own setupWriterProcessor, 1-3 '
        'MetricLineReceivers on StringTransports connected at generated moments (before/after a pause), a receiving thread '
        'storing <= 12 datapoints and a writer thread draining under generated line-granular schedules, then the writer '
        'drains to exhaustion. Relay side: the C07 relay machine (1-4 destinations, MAX_QUEUE_SIZE 1-12, '
        'QUEUE_LOW_WATERMARK_PCT, MAX_DATAPOINTS_PER_MESSAGE 1-15, dynamic router on/off) with flow control on and 1-3 '
        'receivers, event sequences of arrivals, sends, connection loss/recovery and dynamic removals; quiescence either '
        'with every destination reachable or with the environment keeping down what is down. Oracle at quiescence: NOT '
        '(receivers paused AND cache below its low watermark AND every send queue below its low watermark AND not (dynamic '
        'router with zero live destinations)); every receiver transport\'s producing state agrees with the global paused '
        'flag, including receivers connected while paused. Non-trivial = a pause actually occurred and the buffers '
        'drained below the watermark afterwards; distinct by hash of the case.')
ASSUMPTIONS = [
  'quiescence = writer idle with nothing drainable / all transports resumed and all send and reconnect timers fired',
  'reconnect outcomes are environment events: a destination the environment keeps down stays down (its queue may then legitimately stay above the watermark)',
  'low watermarks as documented: 95% of MAX_CACHE_SIZE; MAX_QUEUE_SIZE * QUEUE_LOW_WATERMARK_PCT',
]
SIGNATURES = ()


# ---- cache side ---------------------------------------------------------------------
@st.composite
def cache_cases(draw):
  strategy = draw(st.sampled_from(cachesim.STRATEGIES))
  counter = [0]
  recv = []
  for _ in range(draw(st.integers(0, 2))):
    recv.append(['recv_connect'])
  for _ in range(draw(st.integers(2, 14))):
    k = draw(st.integers(0, 9))
    if k == 0:
      recv.append(['recv_connect'])
    elif k == 1:
      recv.append(['wait', draw(st.sampled_from([0.1, 1]))])
    else:
      counter[0] += 1
      recv.append(['store', draw(st.sampled_from(c02.METRICS[:4])), draw(st.integers(1, 6)), counter[0]])
  if draw(st.booleans()):
    recv.append(['recv_connect'])
  writer = []
  for _ in range(draw(st.integers(0, 8))):
    writer.append(['drain'] if draw(st.integers(0, 4)) else ['wait', 0.1])
  mcs = draw(st.integers(1, 6))
  extra = {}
  if draw(st.integers(0, 2)) == 0:
    extra['prefill'] = [['recv_connect']] + [['store', c02.METRICS[i % 3], 10 + i, 100 + i] for i in range(mcs + draw(st.integers(0, 1)))]
  return {'side': 'cache', 'strategy': strategy, 'max_cache_size': mcs, 'flow': True, **extra,
          'programs': [recv, writer], 'switches': draw(c02.switch_lists(max_switches=10, max_gap=50)),
          'choices': draw(st.lists(st.integers(0, 4), max_size=8)), 'first': draw(st.integers(0, 1))}


def execute_cache(ctx, case):
  b = env.bootstrap()
  receivers = []
  seen = {'paused_once': False, 'resumes': 0, 'unpaused_connect': False}

  def setup(run, sched):
    b.settings['CACHE_QUERY_PORT'] = 7002
    root = MultiService()
    env.need(b.service, 'setupWriterProcessor')(root, b.settings)

    def count_resume():
      seen['resumes'] += 1
    b.events.resumeReceivingMetrics.handlers.append(count_resume)
    # history before the two threads start (sequential): typically a client connects and fills the cache, so
    # that the threads start with receivers paused
    for spec in case.get('prefill', []):
      if spec[0] == 'recv_connect':
        recv_connect(run, sched, spec)
      else:
        run.cache.store(spec[1], (spec[2], spec[3]))

  def recv_connect(run, sched, spec):
    r = b.protocols.MetricLineReceiver()
    before = bool(b.state.metricReceiversPaused)
    resumes0 = seen['resumes']
    r.makeConnection(StringTransport())
    after = bool(b.state.metricReceiversPaused)
    receivers.append((r, after))
    if before and after and seen['resumes'] == resumes0 and r.transport.producerState != 'paused':
      seen['unpaused_connect'] = True

  def on_point(run, sched, kind):
    if b.state.metricReceiversPaused:
      seen['paused_once'] = True

  def post(run, sched, Op):
    # the writer goes on until nothing is drainable
    for _ in range(len(run.cache) * 2 + 6):
      try:
        m, pts = run.cache.drain_metric()
      except Exception as e:  # noqa: judged below
        seen['post_exc'] = e
        break
      if m is None:
        break

  mcs, hard, low = cachesim.derived_limits(case['max_cache_size'], True)
  run = cachesim.run_case(case, on_point=on_point, post=post, setup=setup, extra_ops={'recv_connect': recv_connect})
  if run.aborted:
    ctx.fail('C09:%s' % run.aborted, 'scheduled run aborted (%s)' % run.aborted, case)
    return
  for h in run.history:
    for op in h:
      if op.exc is not None:
        ctx.fail('C09:operation-raised:%s' % type(op.exc).__name__, '%s raised %r' % (op.op, op.exc), case)
        return
  if seen.get('post_exc') is not None:
    ctx.fail('C09:operation-raised:%s' % type(seen['post_exc']).__name__, 'the writer\'s drain raised %r' % (seen['post_exc'],), case)
    return
  if low is None:
    ctx.fail('C09:low-watermark-derivation', 'daemon start-up derives no CACHE_SIZE_LOW_WATERMARK under flow control', case)
    return
  if seen['unpaused_connect']:
    ctx.fail('C09:connection-made-while-paused-not-paused', 'a receiver connected while receivers were paused (no resume in '
             'between) and its transport was left producing', case, 'paused-too')
    return
  paused = bool(b.state.metricReceiversPaused)
  size = run.cache.size
  want_low = case['max_cache_size'] * 0.95
  if abs(low - want_low) > 1e-9:
    ctx.fail('C09:low-watermark-derivation', 'CACHE_SIZE_LOW_WATERMARK derived as %r, documented 95%% of %d' % (low, case['max_cache_size']), case)
    return
  if paused and size < want_low:
    ctx.fail('C09:cache-stuck-paused', 'writer idle, cache holds %d datapoints (low watermark %.2f of MAX_CACHE_SIZE %d) but '
             'receivers are still paused (strategy %s)' % (size, want_low, case['max_cache_size'], case['strategy']), case, 'lets-go')
    return
  for r, was_paused in receivers:
    st_ = r.transport.producerState
    # only the direction the property is about: a receiver left paused although the daemon is not
    if st_ == 'paused' and not paused:
      ctx.fail('C09:receiver-state-disagrees', 'global paused flag is %s but a receiver transport (connected while paused=%s) '
               'is %r' % (paused, was_paused, st_), case, 'all-receivers')
      return
  classes = ['cache', case['strategy'], 'max=%d' % case['max_cache_size']]
  if case.get('prefill'):
    classes.append('threads start with receivers paused')
  if seen['paused_once']:
    classes.append('pause occurred')
  if any(wp for _, wp in receivers):
    classes.append('receiver connected while paused')
  ctx.note(case, nontrivial=seen['paused_once'] and size < want_low, classes=classes)


# ---- relay side ---------------------------------------------------------------------
@st.composite
def relay_cases(draw):
  case = draw(c07.cases())
  case['side'] = 'relay'
  # USE_FLOW_CONTROL off (documented): nobody is ever paused by a full queue, but the dynamic router still raises the
  # paused flag when its last destination goes down - no receiver may end up paused for good because of that
  case['flow'] = draw(st.sampled_from([True, True, True, False]))
  if not case['flow']:
    case['dynamic'] = True
  case['receivers'] = draw(st.integers(1, 3))
  case['ops'] = [op for op in case['ops'] if op[0] != 'stop']
  # sprinkle receiver connects
  for _ in range(draw(st.integers(0, 2))):
    case['ops'].insert(draw(st.integers(0, len(case['ops']))), ['recv_connect'])
  case['quiesce'] = draw(st.sampled_from(['all-up', 'as-is']))
  return case


@st.composite
def pressure_cases(draw):
  """Structured histories: one victim destination is throttled (transport paused / never connected) while
  the others keep draining, so that the victim's queue alone reaches the high watermark; then the victim is
  lost / fails / recovers, at generated points."""
  nd = draw(st.integers(1, 4))
  victim = draw(st.integers(0, nd - 1))
  ops = []
  for d in range(nd):
    if (d != victim and draw(st.integers(0, 3))) or (d == victim and draw(st.booleans())):
      ops.append(['connect_ok', d])
  if draw(st.booleans()):
    ops.append(['pause', victim])
  for _ in range(draw(st.integers(2, 14))):
    ops.append(['burst', draw(st.sampled_from([1, 2, 3, 5, 8]))])
    ops.append(['advance', draw(st.sampled_from([0.0001, 0.01, 0.01, 1.0]))])
    if draw(st.integers(0, 7)) == 0:
      ops.append(['recv_connect'])
  for _ in range(draw(st.integers(0, 14))):
    k = draw(st.integers(0, 11))
    other = draw(st.integers(0, nd - 1))
    if k <= 1:
      ops.append(['lost', victim])
    elif k == 2:
      ops.append(['connect_fail', victim])
    elif k == 3:
      ops.append(['connect_ok', victim])
    elif k == 4:
      ops.append(['resume', victim])
    elif k <= 6:
      ops.append(['burst', draw(st.sampled_from([1, 3, 8, 20]))])
    elif k == 7:
      ops.append(['connect_ok', other])
    elif k == 8:
      ops.append(['lost', other])
    elif k == 9:
      ops.append(['pause', other])
    else:
      ops.append(['advance', draw(st.sampled_from([0.01, 1.0, 6.0]))])
  return {'side': 'relay', 'ndest': nd, 'protocol': draw(st.sampled_from(['pickle', 'line'])),
          'max_queue': draw(st.integers(1, 12)), 'batch': draw(st.integers(1, 15)),
          'low_pct': draw(st.sampled_from([0.2, 0.5, 0.8])), 'hard_pct': draw(st.sampled_from([1.0, 1.25, 2])),
          'flow': True, 'dynamic': draw(st.sampled_from([True, True, False])), 'max_retries': draw(st.sampled_from([1, 1, 2])),
          'pause_after': draw(st.sampled_from([None, None, 10, 25, 120])),
          'ratio_reset': draw(st.integers(0, 2)) == 0,     # USE_RATIO_RESET (documented option)
          'receivers': draw(st.integers(1, 2)), 'ops': ops, 'quiesce': draw(st.sampled_from(['as-is', 'as-is', 'all-up']))}


@st.composite
def failover_cases(draw):
  """fail-over histories: only some destinations are up at first, one fills and pauses the receivers, goes away
  (possibly as the last routed destination), another one comes up later, fills and drains."""
  nd = draw(st.integers(2, 4))
  first_up = draw(st.integers(0, nd - 1))
  later = [d for d in range(nd) if d != first_up]
  ops = [['connect_ok', first_up]]
  if draw(st.booleans()):
    ops.append(['pause', first_up])
  for _ in range(draw(st.integers(1, 4))):
    ops.append(['burst', draw(st.sampled_from([2, 3, 5, 8, 20]))])
  if draw(st.booleans()):
    ops.append(['advance', draw(st.sampled_from([0.0001, 0.01]))])
  ops.append(draw(st.sampled_from([['lost', first_up], ['lost', first_up], ['advance', 1.0]])))
  if draw(st.booleans()):
    ops.append(['recv_connect'])
  nxt = draw(st.sampled_from(later))
  ops.append(['connect_ok', nxt])
  if draw(st.booleans()):
    ops.append(['pause', nxt])
  for _ in range(draw(st.integers(1, 4))):
    ops.append(['burst', draw(st.sampled_from([2, 3, 5, 8, 20]))])
  if draw(st.booleans()):
    ops.append(['resume', nxt])
  for _ in range(draw(st.integers(1, 3))):
    ops.append(['advance', draw(st.sampled_from([0.0001, 0.01, 1.0]))])
  for _ in range(draw(st.integers(0, 4))):
    ops.append(draw(st.sampled_from([['connect_fail', first_up], ['connect_ok', first_up], ['advance', 6.0], ['burst', 3],
                                     ['lost', nxt], ['connect_ok', later[-1]]])))
  return {'side': 'relay', 'ndest': nd, 'protocol': draw(st.sampled_from(['pickle', 'line'])),
          'max_queue': draw(st.integers(1, 8)), 'batch': draw(st.integers(1, 15)),
          'low_pct': draw(st.sampled_from([0.2, 0.5, 0.8])), 'hard_pct': draw(st.sampled_from([1.0, 1.25, 2])),
          'flow': True, 'dynamic': draw(st.sampled_from([True, True, True, False])), 'max_retries': draw(st.sampled_from([1, 1, 2])),
          'pause_after': draw(st.sampled_from([None, None, 10, 25, 120])),
          'ratio_reset': draw(st.integers(0, 2)) == 0,     # USE_RATIO_RESET (documented option)
          'receivers': draw(st.integers(1, 2)), 'ops': ops, 'quiesce': draw(st.sampled_from(['as-is', 'as-is', 'all-up']))}


def execute_relay(ctx, case):
  t = relaysim.run_case(case)
  low = case['max_queue'] * case.get('low_pct', 0.8)
  if abs(t.low - low) > 1e-9:
    ctx.fail('C09:low-watermark-derivation', 'SEND_QUEUE_LOW_WATERMARK derived as %r, documented %r' % (t.low, low), case)
    return
  queues = dict(t.final_queue_lens)      # everything queued, the relay's own periodic metrics included
  all_low = all(n < low for n in queues.values())
  no_dest = case['dynamic'] and not t.router_dests
  ever_paused = any(t.paused_history)
  if t.paused and all_low and not no_dest:
    # root-cause signatures
    sig = 'C09:relay-stuck-paused'
    ctx.fail(sig, 'quiescent with receivers paused although every send queue is below its low watermark %.2f: queues %r, '
             'routed destinations %r, connection states %r (MAX_QUEUE_SIZE %d, batch %d, dynamic %s)' % (
               low, queues, sorted(t.router_dests, key=repr), t.final_states, case['max_queue'], case['batch'], case['dynamic']),
             case, 'lets-go')
    return
  if t.unpaused_connect and case['flow']:
    ctx.fail('C09:connection-made-while-paused-not-paused', 'a receiver connected while receivers were paused and its transport '
             'was left producing', case, 'paused-too')
    return
  for st_ in t.receiver_states:
    if st_ == 'paused' and not t.paused:
      ctx.fail('C09:receiver-state-disagrees', 'global paused flag is %s but receiver transports are %r' % (t.paused, t.receiver_states),
               case, 'all-receivers')
      return
  classes = ['relay', 'dests=%d' % case['ndest'], 'dynamic' if case['dynamic'] else 'static', 'quiesce=' + case['quiesce']] + (
    [] if case['flow'] else ['flow control off'])
  if ever_paused:
    classes.append('pause occurred')
  if len(t.router_dests) < case['ndest']:
    classes.append('destination removed at quiescence')
  ctx.note(case, nontrivial=ever_paused and all_low, classes=classes)


def execute(ctx, case):
  if case.get('side') == 'relay':
    return execute_relay(ctx, case)
  return execute_cache(ctx, case)


FIXED_CACHE = [
  [[['store', 'a', 1, 1], ['store', 'a', 2, 2], ['recv_connect']], [['drain']]],
  [[['recv_connect'], ['store', 'a', 1, 1], ['store', 'b', 1, 2], ['store', 'a', 2, 3], ['recv_connect'], ['store', 'b', 2, 4]],
   [['drain'], ['drain']]],
]


# the threads start with receivers already paused (sequential prefix): a new connection against the writer's resume
PREFILLED = [
  {'prefill': [['recv_connect'], ['store', 'a', 1, 1], ['store', 'a', 2, 2], ['store', 'b', 1, 3]],
   'programs': [[['recv_connect']], [['drain'], ['drain']]]},
  {'prefill': [['recv_connect'], ['store', 'a', 1, 1], ['store', 'b', 1, 2], ['store', 'c', 1, 3]],
   'programs': [[['recv_connect'], ['store', 'd', 1, 4]], [['drain'], ['drain'], ['drain']]]},
]


def enumerate_cache(ctx):
  """every placement of one preemption (thorough: also of two) for fixed workloads: the windows inside
  connectionMade / store / drain around the fullness checks."""
  jobs = [(wi, s, mcs, first) for wi in range(len(FIXED_CACHE)) for s in ('sorted', 'bucketmax') for mcs in (1, 2)
          for first in (0, 1)]
  total = 0
  for ji, (wi, s, mcs, first) in enumerate(jobs):
    if not ctx.quick and ji % ctx.nshards != (ctx.shard or 0):
      continue
    base = {'side': 'cache', 'strategy': s, 'max_cache_size': mcs, 'flow': True, 'programs': FIXED_CACHE[wi],
            'switches': [], 'choices': [], 'first': first}
    n = 260
    for i in range(1, n):
      execute(ctx, dict(base, switches=[[i, 1]]))
      total += 1
    if not ctx.quick:
      for i in range(1, n, 2):
        for j in range(i + 1, n, 2):
          execute(ctx, dict(base, switches=[[i, 1], [j, 1]]))
          total += 1
  for pi, pf in enumerate(PREFILLED):
    for s in ('sorted', 'max'):
      for mcs in (1, 2):
        if not ctx.quick and (pi * 4 + mcs) % ctx.nshards != (ctx.shard or 0):
          continue
        base = dict(pf, side='cache', strategy=s, max_cache_size=mcs, flow=True, switches=[], choices=[], first=1)
        for i in range(1, 200):
          execute(ctx, dict(base, switches=[[i, 1]]))
          total += 1
        if not ctx.quick:
          for i in range(1, 200, 2):
            for j in range(i + 1, 200, 3):
              execute(ctx, dict(base, switches=[[i, 1], [j, 1]]))
              total += 1
  ctx.extra['bounded_preemption_runs'] = total


def run(ctx):
  enumerate_cache(ctx)
  run_given(ctx, cache_cases(), execute, ctx.scale(1000, 4500), salt=1)
  run_given(ctx, relay_cases(), execute, ctx.scale(700, 3000), salt=2)
  run_given(ctx, pressure_cases(), execute, ctx.scale(700, 4000), salt=3)
  run_given(ctx, failover_cases(), execute, ctx.scale(500, 3000), salt=4)
