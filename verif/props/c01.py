"""C01 - well-formed datapoints are ingested exactly, however the stream is cut."""
import pickle
import struct

from hypothesis import strategies as st

from .. import env, gen, pkl, wire
from ..hyp import run_given

LEVEL = 'exploration'
RULE = ('Streams of 1-30 well-formed datapoints (whitespace-free names incl. reserved punctuation and '
        '2/3/4-byte UTF-8, timestamps >= 0 in several spellings, values in every float() spelling incl. '
        '+-inf, ints to +-2^64) rendered as plaintext lines, UDP datagrams or Int32-framed pickles '
        '(pickle.dumps protocols 0-5 and a hand assembler incl. python-2 str opcodes) and delivered under the '
        'generated segmentation, whole, byte-by-byte and (small streams) every single cut position; oracle = '
        'independent rational-arithmetic decoder; non-trivial = >=2 datapoints and (TCP) a cut strictly inside '
        'a line/frame or (UDP) >=2 lines in one datagram; distinct by hash of (listener, bytes, cuts).')
ASSUMPTIONS = [
  'protobuf listener not covered: google.protobuf is not installed, carbon.protobuf cannot be imported',
  'listeners are driven at the IProtocol boundary (dataReceived/datagramReceived) on a StringTransport; no real sockets',
  'well-formed plaintext = "<name> <value> <timestamp>" with single spaces, terminated by LF or CRLF; lines < 16384 bytes, frames < PICKLE_RECEIVER_MAX_LENGTH',
  'timestamp/value equality is equality as IEEE doubles (carbon data model)',
]
SIGNATURES = ()

SINGLE_CUT_LIMIT = {'quick': 160, 'thorough': 1500}


def h(b):
  return b.hex()


# ------------------------------------------------------------------ generators
@st.composite
def text_points(draw, n_max=30):
  n = draw(st.integers(1, n_max))
  pts = []
  for _ in range(n):
    name = draw(gen.metric_names())
    pts.append((name, draw(gen.value_texts()), draw(gen.timestamp_texts())))
  return pts


@st.composite
def line_cases(draw):
  pts = draw(text_points())
  stream = b''
  bounds = []
  expected = []
  for name, v, t in pts:
    eol = draw(st.sampled_from([b'\n', b'\n', b'\r\n']))
    stream += ('%s %s %s' % (name, v, t)).encode('utf-8') + eol
    bounds.append(len(stream))
    expected.append([name, wire.dec_number(t), wire.dec_number(v)])
  cuts = draw(st.lists(st.integers(1, max(1, len(stream) - 1)), max_size=10))
  return {'listener': 'line', 'stream': h(stream), 'cuts': sorted(set(cuts)), 'bounds': bounds,
          'expected': expected, 'flow': draw(flow_events(len(expected)))}


@st.composite
def udp_cases(draw):
  ndg = draw(st.integers(1, 4))
  dgs = []
  expected = []
  for _ in range(ndg):
    pts = draw(text_points(n_max=8))
    eols = [draw(st.sampled_from(['\n', '\n', '\r\n'])) for _ in pts]
    text = ''
    for i, (name, v, t) in enumerate(pts):
      text += '%s %s %s' % (name, v, t)
      if i < len(pts) - 1 or draw(st.booleans()):
        text += eols[i]
      expected.append([name, wire.dec_number(t), wire.dec_number(v)])
    dgs.append(h(text.encode('utf-8')))
  return {'listener': 'udp', 'datagrams': dgs, 'expected': expected}


def num_objs():
  return st.one_of(
    st.integers(-2**64, 2**64),
    st.integers(-1000, 1000),
    gen.raw_doubles(),
    st.floats(allow_nan=False),
  )


def ts_objs():
  return st.one_of(st.integers(0, 2**33), st.floats(0, 2.0**34, allow_nan=False),
                   st.sampled_from([0, 1, 2**31, 2**32 - 1]))


def asm_number(draw, x):
  if isinstance(x, int):
    style = draw(st.sampled_from(['auto', 'text', 'long_text', 'long1', 'binint']))
    if style == 'binint' and not -2**31 <= x < 2**31:
      style = 'auto'
    return pkl.p_int(x, style)
  return pkl.p_float(x, draw(st.sampled_from(['bin', 'bin', 'text'])))


@st.composite
def pickle_cases(draw):
  nframes = draw(st.integers(1, 4))
  stream = b''
  bounds = []
  expected = []
  classes = set()
  for _ in range(nframes):
    n = draw(st.integers(1, 8))
    entries = []
    for _ in range(n):
      name = draw(gen.metric_names())
      ts = draw(ts_objs())
      val = draw(num_objs())
      entries.append((name, (ts, val)))
      expected.append([name, float(ts), float(val)])
    how = draw(st.integers(0, 7))
    if how <= 5:
      payload = pickle.dumps(entries, protocol=how)
      classes.add('pickle.dumps-proto%d' % how)
    else:
      # hand-assembled frame; python-2 clients send names as (SHORT_)BINSTRING
      sstyle = draw(st.sampled_from(['short_binstring', 'binstring', 'binunicode', 'unicode_text',
                                     'short_binunicode']))
      items = []
      for name, (ts, val) in entries:
        inner = pkl.p_tuple([asm_number(draw, ts), asm_number(draw, val)],
                            draw(st.sampled_from(['auto', 'mark'])))
        items.append(pkl.p_tuple([pkl.p_str(name, sstyle), inner], draw(st.sampled_from(['auto', 'mark']))))
      body = pkl.p_list(items, draw(st.sampled_from(['appends', 'append', 'mark_list'])))
      proto = draw(st.sampled_from([0, 2, 4])) if sstyle != 'short_binunicode' else 4
      payload = pkl.program(body, proto, framed=draw(st.booleans()))
      classes.add('assembled-' + sstyle)
      if sstyle in ('short_binstring', 'binstring'):
        classes.add('python2-style pickle')
    stream += struct.pack('!I', len(payload)) + payload
    bounds.append(len(stream))
  cuts = draw(st.lists(st.integers(1, max(1, len(stream) - 1)), max_size=10))
  return {'listener': 'pickle', 'stream': h(stream), 'cuts': sorted(set(cuts)), 'bounds': bounds,
          'expected': expected, 'classes': sorted(classes), 'flow': draw(flow_events(len(expected)))}


# ------------------------------------------------------------------ oracle
def compare(ctx, case, got, label):
  exp = case['expected']
  for i in range(min(len(exp), len(got))):
    name, ts, val = exp[i]
    gname, gdp = got[i][0], got[i][1]
    ok = (type(gname) is str and gname == name and len(gdp) == 2 and
          wire.same_double(gdp[0], ts) and wire.same_double(gdp[1], val))
    if not ok:
      ctx.fail('C01:wrong-datapoint',
               '%s [%s]: datapoint %d delivered as %r, expected (%r, (%r, %r))' % (
                 case['listener'], label, i, got[i], name, ts, val), case, 'exactness')
      return False
  if len(got) != len(exp):
    ctx.fail('C01:count-mismatch',
             '%s [%s]: %d datapoints delivered, %d sent (first extra/missing index %d)' % (
               case['listener'], label, len(got), len(exp), min(len(got), len(exp))), case, 'exactly-once')
    return False
  return True


@st.composite
def flow_events(draw, n):
  """Back-pressure while the stream is being received: after the i-th datapoint the daemon pauses its receivers
  (cache / send queue full), after the j-th (j >= i; j == i: at once, as when the writer thread frees space
  concurrently) it resumes them.  None: no back-pressure."""
  if n < 1 or draw(st.integers(0, 2)):
    return None
  i = draw(st.integers(1, n))
  return [i, draw(st.sampled_from([i, i, min(n, i + 1), draw(st.integers(i, n))]))]


class FlowControl(object):
  """metricReceived observer that plays the daemon's pauseReceivingMetrics / resumeReceivingMetrics events."""
  def __init__(self, b, flow):
    self.b = b
    self.flow = flow
    self.n = 0
    if flow:
      b.events.metricReceived.handlers.append(self)

  def __call__(self, *args):
    self.n += 1
    if self.n == self.flow[0]:
      self.b.events.pauseReceivingMetrics()
    if self.n == self.flow[1]:
      self.b.events.resumeReceivingMetrics()


def run_tcp(ctx, case, cuts, label):
  env.reset()
  b = env.bootstrap()
  rec = env.Recorder(b.events.metricReceived)
  FlowControl(b, case.get('flow'))
  lst = wire.Listener(case['listener'])
  data = bytes.fromhex(case['stream'])
  lst.feed(data, cuts)
  got = list(rec.items)
  if lst.escaped:
    ctx.fail('C01:exception-escaped', '%s [%s]: %r escaped dataReceived' % (
      case['listener'], label, lst.escaped[0]), case, 'no-exception')
    return None
  if lst.transport.disconnecting:
    ctx.fail('C01:connection-closed', '%s [%s]: listener closed the connection on well-formed input' % (
      case['listener'], label), case, 'no-disconnect')
    return None
  lst.close()
  if not compare(ctx, case, got, label):
    return None
  return got


NEIGHBOUR = [('neighbour.one', 1500000001.0, 1.0), ('neighbour.two', 1500000002.0, 2.5)]


def neighbour_stream(kind):
  if kind == 'line':
    data = b'neighbour.one 1.0 1500000001\nneighbour.two 2.5 1500000002\n'
    return [data[:18], data[18:40], data[40:]]
  payload = pickle.dumps([(n, (t, v)) for n, t, v in NEIGHBOUR], protocol=2)
  data = struct.pack('!I', len(payload)) + payload
  return [data[:2], data[2:9], data[9:]]


def run_two_connections(ctx, case, cuts):
  """The same stream while (a) an earlier connection of the same listener ended in the middle of a line / frame and
  (b) another connection receives its own datapoints in between this connection's segments: each connection's
  datapoints arrive exactly as sent, in its own order."""
  kind = case['listener']
  label = 'two connections, cuts=%s' % cuts
  env.reset()
  b = env.bootstrap()
  rec = env.Recorder(b.events.metricReceived)
  prev = wire.Listener(kind)
  prev.feed(b'previous.partial 1 15' if kind == 'line' else struct.pack('!I', 100) + b'\x80\x02')
  prev.close()
  a, nb = wire.Listener(kind), wire.Listener(kind)
  data = bytes.fromhex(case['stream'])
  segs_a = wire.segments(data, cuts)
  segs_b = neighbour_stream(kind)
  for i in range(max(len(segs_a), len(segs_b))):
    for lst, segs in ((a, segs_a), (nb, segs_b)):
      if i < len(segs) and not lst.escaped and not lst.transport.disconnecting:
        lst.feed(segs[i])
  for lst, who in ((a, 'this connection'), (nb, 'the neighbouring connection')):
    if lst.escaped:
      ctx.fail('C01:exception-escaped', '%s [%s]: %r escaped dataReceived of %s' % (kind, label, lst.escaped[0], who), case, 'no-exception')
      return None
    if lst.transport.disconnecting:
      ctx.fail('C01:connection-closed', '%s [%s]: %s was closed on well-formed input' % (kind, label, who), case, 'no-disconnect')
      return None
    lst.close()
  got = list(rec.items)
  mine = [g for g in got if not (isinstance(g[0], str) and g[0].startswith('neighbour.'))]
  theirs = [(g[0], float(g[1][0]), float(g[1][1])) for g in got if isinstance(g[0], str) and g[0].startswith('neighbour.')]
  if theirs != NEIGHBOUR:
    ctx.fail('C01:neighbour-connection-disturbed', '%s [%s]: the neighbouring connection sent %r, delivered %r' % (
      kind, label, NEIGHBOUR, theirs), case, 'exactly-once')
    return None
  if not compare(ctx, case, mine, label):
    return None
  return mine


def run_slow_client(ctx, case, timeout=10.0):
  """METRIC_CLIENT_IDLE_TIMEOUT configured and a client that sends one line / frame at a time with pauses below the
  timeout (the stream lasts several timeouts): it is never idle that long, so nothing may be cut off."""
  from twisted.internet.task import Clock
  kind = case['listener']
  label = 'one frame every %.1fs, idle timeout %.0fs' % (timeout * 0.6, timeout)
  env.reset(METRIC_CLIENT_IDLE_TIMEOUT=timeout)
  b = env.bootstrap()
  rec = env.Recorder(b.events.metricReceived)
  clock = Clock()

  class ClockTime(object):       # the listener module's wall clock follows the virtual clock
    @staticmethod
    def time():
      return 1600000000.0 + clock.seconds()
  saved_time = b.protocols.time
  b.protocols.time = ClockTime
  try:
    lst = wire.Listener(kind, clock=clock)
    data = bytes.fromhex(case['stream'])
    for seg in wire.segments(data, case['bounds']):
      if not seg:
        continue
      clock.advance(timeout * 0.6)
      if lst.transport.disconnecting:
        break
      lst.feed(seg)
  finally:
    b.protocols.time = saved_time
  got = list(rec.items)
  if lst.escaped:
    ctx.fail('C01:exception-escaped', '%s [%s]: %r escaped dataReceived' % (kind, label, lst.escaped[0]), case, 'no-exception')
    return None
  if lst.transport.disconnecting:
    ctx.fail('C01:connection-closed', '%s [%s]: the listener closed the connection of a client that was never idle for the '
             'configured timeout (%d of %d datapoints delivered)' % (kind, label, len(got), len(case['expected'])), case, 'no-disconnect')
    return None
  lst.close()
  for dc in clock.getDelayedCalls():
    dc.cancel()
  if not compare(ctx, case, got, label):
    return None
  return got


def execute(ctx, case):
  kind = case['listener']
  classes = list(case.get('classes', []))
  exp = case['expected']
  if any(ord(c) > 127 for e in exp for c in e[0]):
    classes.append('non-ascii name')
  if any(e[2] in (float('inf'), float('-inf')) for e in exp):
    classes.append('+-inf value')
  if kind == 'udp':
    env.reset()
    b = env.bootstrap()
    rec = env.Recorder(b.events.metricReceived)
    lst = wire.Listener('udp')
    for dg in case['datagrams']:
      lst.datagram(bytes.fromhex(dg))
    if lst.escaped:
      ctx.fail('C01:exception-escaped', 'udp: %r escaped datagramReceived' % lst.escaped[0], case, 'no-exception')
      return
    compare(ctx, case, list(rec.items), 'datagrams')
    multi = any(bytes.fromhex(dg).count(b'\n') >= 1 and len(bytes.fromhex(dg).strip().splitlines()) >= 2
                for dg in case['datagrams'])
    ctx.note(case, nontrivial=len(exp) >= 2 and multi, classes=['udp'] + classes,
             key=[kind, case['datagrams']])
    return

  data = bytes.fromhex(case['stream'])
  cuts = [c for c in case['cuts'] if 0 < c < len(data)]
  bounds = set(case['bounds'])
  inside = [c for c in cuts if c not in bounds]
  if kind == 'pickle':
    starts = [0] + case['bounds'][:-1]
    if any(s < c < s + 4 for c in cuts for s in starts):
      classes.append('cut inside length prefix')
  # a cut inside a multi-byte UTF-8 character: next byte is a continuation byte
  if any((data[c] & 0xC0) == 0x80 for c in cuts) and kind == 'line':
    classes.append('cut inside utf-8 char')
  segs = wire.segments(data, cuts)
  if any(sum(1 for bnd in bounds if lo < bnd <= lo + len(s)) >= 2
         for lo, s in zip([0] + sorted(cuts), segs)):
    classes.append('several frames in one segment')

  got = run_tcp(ctx, case, cuts, 'cuts=%s' % cuts)
  if got is None:
    return
  if case.get('flow'):
    classes.append('receivers paused and resumed while the stream arrives')
  ctx.note(case, nontrivial=len(exp) >= 2 and bool(inside), classes=[kind] + classes,
           key=[kind, case['stream'], cuts])
  # metamorphic: every segmentation gives the same result (each is also compared with
  # the expected list, so a failure is attributed to the segmentation that broke)
  if run_tcp(ctx, case, [], 'whole') is None:
    return
  ctx.evaluations += 1
  if not any(e[0].startswith('neighbour.') or e[0].startswith('previous.') for e in exp):
    if run_two_connections(ctx, case, cuts) is None:
      return
    ctx.evaluations += 1
  if len(case['bounds']) >= 3:
    if run_slow_client(ctx, case) is None:
      return
    ctx.evaluations += 1
  if len(data) <= 4000:
    if run_tcp(ctx, case, list(range(1, len(data))), 'byte-by-byte') is None:
      return
    ctx.evaluations += 1
  if len(data) <= SINGLE_CUT_LIMIT[ctx.tier]:
    for c in range(1, len(data)):
      if run_tcp(ctx, case, [c], 'single cut %d' % c) is None:
        return
      ctx.evaluations += 1
    ctx.count('all-single-cuts streams')


def big_batch_cases():
  """One message carrying more datapoints than the relay's own MAX_DATAPOINTS_PER_MESSAGE (clients are free to),
  directly followed by a small one: same order whether they arrive in one segment or apart."""
  big = [('srv.é.m%04d' % i, (1500000000 + i, float(i))) for i in range(1200)]
  tail = [('srv.tail.a', (1600000000, 1.0)), ('srv.tail.b', (1600000001, 2.0))]
  exp = [[n, float(t), v] for n, (t, v) in big + tail]
  f1 = pickle.dumps(big, protocol=2)
  f2 = pickle.dumps(tail, protocol=2)
  stream = struct.pack('!I', len(f1)) + f1 + struct.pack('!I', len(f2)) + f2
  bounds = [4 + len(f1), len(stream)]
  for cuts in ([], [4 + len(f1)], [100, 4 + len(f1) - 7], [4 + len(f1) + 2]):
    yield {'listener': 'pickle', 'stream': stream.hex(), 'cuts': cuts, 'bounds': bounds, 'expected': exp, 'classes': ['message above 500 datapoints'], 'flow': None}
  lines = ''.join('%s %s %d\n' % (n, v, t) for n, (t, v) in big + tail).encode('utf-8')
  yield {'listener': 'line', 'stream': lines.hex(), 'cuts': [len(lines) // 2], 'bounds': [], 'expected': exp, 'classes': ['message above 500 datapoints'], 'flow': None}


def run(ctx):
  if (ctx.shard or 0) == 0:
    for case in big_batch_cases():
      execute(ctx, case)
  n = ctx.scale(450, 2500)
  run_given(ctx, line_cases(), execute, n, salt=1)
  run_given(ctx, pickle_cases(), execute, n, salt=2)
  run_given(ctx, udp_cases(), execute, n, salt=3)
