"""C06 - consistent hashing is stable, compatible and independent of membership history."""
from hypothesis import strategies as st

from .. import env, gen
from ..core import HarnessError
from ..hyp import run_given
from ..ref import ring as refring
from . import c05

LEVEL = 'exploration'
RULE = ('Ordered destination lists of 1-8 (server, instance) nodes (instances incl. None and names repeated across '
        'servers, which makes all fnv1a_ch replica keys collide), both hash types, followed by <=6 leave/rejoin '
        'operations applied through ConsistentHashingRouter.removeDestination/addDestination (what client.py does under '
        'DYNAMIC_ROUTER); after the initial build and after EVERY operation the full preference list of the real ring is '
        'read for a real metric name at each of the 65536 ring positions (exhaustive) or at the boundary positions '
        'p-1/p/p+1 of every ring entry of the real and the reference ring plus random names. Oracles: (1) one '
        'add/remove changes each key\'s list only by inserting/deleting that node; (2) lists equal an independent '
        're-implementation of the published carbon_ch/fnv1a_ch ring driven through the same operations; (3) after '
        'the history, routing equals a fresh router built from the live destinations in configuration order. '
        'Non-trivial = history with a remove and a later re-add, or a node list with a cross-node replica collision; '
        'distinct by hash of (nodes, ops, hash type).')
ASSUMPTIONS = [
  'applies to ConsistentHashRing/ConsistentHashingRouter; FastHashRing documents that it does not try to be stable',
  'the published algorithm (carbon / graphite-web hashing.py) resolves replica collisions in join order; where the reference itself is join-order dependent a difference in sub-check 3 is the known finding collision-join-order (KNOWN_FINDINGS.txt), reported only if sub-check 2 is green for both rings',
  'pyhash/mmh3 are not installed: carbon uses its pure-python FNV-1a',
]
SIGNATURES = ('collision-join-order',)

HOSTS = ['10.0.0.1', '10.0.0.2', '10.0.0.3', 'graphite-a', 'graphite-b.example.com', '::1', 'h6', 'h7', 'h8']
INSTANCES = [None, 'a', 'a', 'b', 'c', '0', 'cache']


@st.composite
def cases(draw, exhaustive=False):
  n = draw(st.integers(1, 8))
  nodes = []
  seen = set()
  while len(nodes) < n:
    node = (draw(st.sampled_from(HOSTS)), draw(st.sampled_from(INSTANCES)))
    if node not in seen:
      seen.add(node)
      nodes.append(list(node))
  live = list(range(n))
  dead = []
  ops = []
  for _ in range(draw(st.integers(0, 6))):
    if dead and (len(live) <= 1 or draw(st.booleans())):
      i = dead.pop(draw(st.integers(0, len(dead) - 1)))
      live.append(i)
      ops.append(['add', i, draw(st.integers(0, 2)) == 0])
    elif len(live) > 1:
      i = live.pop(draw(st.integers(0, len(live) - 1)))
      dead.append(i)
      ops.append(['remove', i, draw(st.integers(0, 2)) == 0])
  return {'nodes': nodes, 'ops': ops, 'hash': draw(st.sampled_from(['carbon_ch', 'fnv1a_ch'])),
          'keys': 'all' if exhaustive else 'boundary',
          'names': draw(st.lists(gen.metric_names(max_tokens=5), max_size=40))}


_edge = {}


def edge_nodes(hash_type):
  """Nodes one of whose replicas lands exactly on the last (0xffff) or first (0) ring position: two of them collide
  there, and the published algorithm bumps past the end of the 16-bit range."""
  if hash_type not in _edge:
    top, bottom = [], []
    for i in range(4000):
      node = ('h%d' % i, 'a') if hash_type == 'carbon_ch' else ('10.0.0.1', 'cache%d' % i)
      ps = set(refring.position(refring.replica_key(node, k, hash_type), hash_type) for k in range(refring.REPLICAS))
      if 65535 in ps:
        top.append(node)
      if 0 in ps:
        bottom.append(node)
    _edge[hash_type] = (top[:6], bottom[:6])
  return _edge[hash_type]


@st.composite
def edge_cases(draw):
  hash_type = draw(st.sampled_from(['carbon_ch', 'fnv1a_ch']))
  top, bottom = edge_nodes(hash_type)
  pool = draw(st.sampled_from([top, top, bottom])) or top or bottom
  nodes = []
  if hash_type == 'carbon_ch':
    picked = draw(st.lists(st.sampled_from(pool), min_size=min(2, len(pool)), max_size=min(3, len(pool)), unique=True))
    nodes = [list(n) for n in picked]
  else:
    # the fnv1a_ch replica key only depends on the instance name: the same instance on several servers collides
    inst = draw(st.sampled_from(pool))[1]
    nodes = [[h_, inst] for h_ in draw(st.lists(st.sampled_from(HOSTS), min_size=2, max_size=3, unique=True))]
  extra = (draw(st.sampled_from(HOSTS)), draw(st.sampled_from(INSTANCES)))
  if list(extra) not in nodes and draw(st.booleans()):
    nodes.insert(draw(st.integers(0, len(nodes))), list(extra))
  return {'nodes': nodes, 'ops': [], 'hash': hash_type, 'keys': 'all', 'names': [], 'edge': True}


def make_router(b, hash_type):
  settings = c05.FakeSettings(REPLICATION_FACTOR=1, DIVERSE_REPLICAS=False, ROUTER_HASH_TYPE=c05.as_configured(hash_type))
  cls = b.routers.DatapointRouter.plugins.get('consistent-hashing')
  if cls is None:
    raise HarnessError('consistent-hashing router plugin is gone')
  r = cls(settings)
  if not hasattr(r, 'ring') or not hasattr(r.ring, 'get_nodes'):
    raise HarnessError('router.ring.get_nodes is gone')
  return r


def dest(node):
  return (node[0], 2004, node[1])


def ref_table(ref):
  """preference list for each of the 65536 positions from the reference ring."""
  ring = ref.ordered()
  if not ring:
    return lambda p: []
  prefs = [None] * len(ring)

  def pref_for_index(idx):
    if prefs[idx] is None:
      prefs[idx] = ref.preference_at(ring[idx][0], ring)
    return prefs[idx]
  positions = [p for p, _ in ring]
  import bisect

  def lookup(p):
    # first entry at or after p, wrapping (linear definition; bisect only for speed, checked below)
    idx = bisect.bisect_left(positions, p)
    if idx == len(positions):
      idx = 0
    return pref_for_index(idx)
  # sanity of the speed-up against the linear definition on a few positions
  for p in (0, positions[0], positions[-1], positions[-1] + 1, 65535, positions[len(positions) // 2] + 1):
    if lookup(p) != ref.preference_at(p, ring):
      raise HarnessError('reference table inconsistent with its linear definition')
  return lookup


def positions_for(case, real_entries, ref):
  if case['keys'] == 'all':
    return range(65536)
  pts = set([0, 1, 65534, 65535])
  for p, _ in list(real_entries) + ref.ordered():
    for q in (p - 1, p, p + 1):
      pts.add(q % 65536)
  return sorted(pts)


def snapshot(ctx, case, router, ref, label):
  """Read the real preference lists, compare with the reference (sub-check 2). Returns dict
  key -> list or None after reporting."""
  table = refring.keys_for_all_positions(case['hash'])
  lookup = ref_table(ref)
  out = {}
  real_entries = list(getattr(router.ring, 'ring', []))
  for p in positions_for(case, real_entries, ref):
    key = table[p]
    try:
      got = [tuple(n) for n in router.ring.get_nodes(key)]
    except Exception as e:  # noqa
      ctx.fail('C06:get_nodes-raised:%s' % type(e).__name__, '%s: get_nodes(%r) raised %r' % (label, key, e), case)
      return None
    want = [tuple(n) for n in lookup(p)]
    if got != want:
      ctx.fail('C06:differs-from-published-algorithm',
               '%s, hash %s: key %r (ring position %d) -> %r, the published ring algorithm gives %r' % (
                 label, case['hash'], key, p, got, want), case, 'compatibility')
      return None
    out[key] = got
    # the way the relay asks: through the router (REPLICATION_FACTOR 1 here), not the ring object
    try:
      routed = [tuple(d) for d in router.getDestinations(key)]
    except Exception as e:  # noqa
      ctx.fail('C06:getDestinations-raised:%s' % type(e).__name__, '%s: getDestinations(%r) raised %r' % (label, key, e), case)
      return None
    if routed != [dest(n) for n in want[:1]]:
      ctx.fail('C06:differs-from-published-algorithm',
               '%s, hash %s: the router sends key %r (ring position %d) to %r, the published ring algorithm to %r' % (
                 label, case['hash'], key, p, routed, [dest(n) for n in want[:1]]), case, 'compatibility')
      return None
  for name in case['names']:
    try:
      got = [tuple(n) for n in router.ring.get_nodes(name)]
    except Exception as e:  # noqa
      ctx.fail('C06:get_nodes-raised:%s' % type(e).__name__, '%s: get_nodes(%r) raised %r' % (label, name, e), case)
      return None
    want = [tuple(n) for n in ref.preference(name)]
    if got != want:
      ctx.fail('C06:differs-from-published-algorithm',
               '%s, hash %s: name %r -> %r, the published ring algorithm gives %r' % (label, case['hash'], name, got, want),
               case, 'compatibility')
      return None
    out[name] = got
  return out


def execute(ctx, case):
  if 'conf_dests' in case:
    return execute_conf_order(ctx, case)
  b = env.bootstrap()
  env.reset()
  nodes = [tuple(n) for n in case['nodes']]
  router = make_router(b, case['hash'])
  ref = refring.RefRing(case['hash'])
  for n in nodes:
    try:
      router.addDestination(dest(n))
    except Exception as e:  # noqa
      ctx.fail('C06:membership-operation-raised:%s' % type(e).__name__, 'building the ring for %r: addDestination(%r) raised %r' % (
        nodes, dest(n), e), case, 'compatibility')
      return
    ref.add(n)
  live = list(nodes)
  ever = set(nodes)
  snap = snapshot(ctx, case, router, ref, 'fresh ring %r' % (nodes,))
  if snap is None:
    return
  nkeys = len(snap)
  readd = False
  removed = set()
  pending_quiet = []
  for k, opspec in enumerate(case['ops']):
    op, i = opspec[0], opspec[1]
    quiet = len(opspec) > 2 and opspec[2] and k + 1 < len(case['ops'])     # no look-up between this change and the next
    node = nodes[i]
    label = 'after ops %r' % (case['ops'][:k + 1],)
    try:
      if op == 'remove':
        router.removeDestination(dest(node))
      else:
        router.addDestination(dest(node))
    except Exception as e:  # noqa
      ctx.fail('C06:membership-operation-raised:%s' % type(e).__name__, '%s: %s(%r) raised %r' % (label, op, dest(node), e), case, 'compatibility')
      return
    if op == 'remove':
      ref.remove(node)
      live.remove(node)
      removed.add(node)
    else:
      ref.add(node)
      live.append(node)
      if node in removed:
        readd = True
    if quiet:
      pending_quiet.append((op, node))
      continue
    new = snapshot(ctx, case, router, ref, label)
    if new is None:
      return
    nkeys += len(new)
    if pending_quiet:
      # several changes since the last look-up: only compatibility was judged (above); no single-operation
      # disruption statement applies
      pending_quiet = []
      snap = new
      continue
    # sub-check 1: minimal disruption on the keys present in both snapshots
    for key, after in new.items():
      before = snap.get(key)
      if before is None:
        continue
      if op == 'add':
        ok = [x for x in after if x != node] == before and after.count(node) == 1
      else:
        ok = [x for x in before if x != node] == after
      if not ok:
        ctx.fail('C06:metric-moved-between-surviving-nodes',
                 '%s %r (hash %s): key %r had preference %r and now has %r' % (op, node, case['hash'], key, before, after),
                 case, 'minimal-disruption')
        return
    snap = new
  # sub-check 3: history independence against a fresh router with the live nodes in configuration order
  cross = not ref.collision_free() if len(nodes) > 1 else False
  known_seen = False
  if case['ops']:
    fresh_nodes = [n for n in nodes if n in live]
    router2 = make_router(b, case['hash'])
    ref2 = refring.RefRing(case['hash'])
    for n in fresh_nodes:
      try:
        router2.addDestination(dest(n))
      except Exception as e:  # noqa
        ctx.fail('C06:membership-operation-raised:%s' % type(e).__name__, 'fresh ring %r: addDestination raised %r' % (fresh_nodes, e), case)
        return
      ref2.add(n)
    fresh = snapshot(ctx, case, router2, ref2, 'fresh ring of the live nodes %r' % (fresh_nodes,))
    if fresh is None:
      return
    nkeys += len(fresh)
    diff = [k for k in snap if k in fresh and fresh[k] != snap[k]]
    if diff:
      k = diff[0]
      # both rings equal the published algorithm (sub-check 2 is green), so the difference is the
      # algorithm's own join-order dependence under replica collisions
      ref_differs = ref.ordered() != ref2.ordered()
      if ref_differs:
        ctx.fail('collision-join-order',
                 'nodes %r ops %r hash %s: %d of %d keys route differently from a fresh relay with the same live '
                 'destinations (e.g. %r: %r vs fresh %r)' % (nodes, case['ops'], case['hash'], len(diff), len(snap), k,
                                                           snap[k], fresh[k]), case, 'history-independence')
        known_seen = True
      else:
        ctx.fail('C06:history-dependent-routing',
                 'after %r key %r -> %r but a fresh relay gives %r although the published algorithm places both rings '
                 'identically' % (case['ops'], k, snap[k], fresh[k]), case, 'history-independence')
        return
  ctx.evaluations += nkeys - 1
  classes = [case['hash'], 'keys=' + case['keys'], 'nodes=%d' % len(nodes)]
  if readd:
    classes.append('remove then re-add')
  if cross:
    classes.append('replica collision')
  if known_seen:
    classes.append('join-order dependence observed (known finding)')
  ctx.note(dict(case, names=case['names'][:3]), nontrivial=readd or cross, classes=classes,
           key=[case['nodes'], case['ops'], case['hash'], case['keys']])


def conf_order_cases():
  import itertools as _it
  hosts = ['10.0.0.%d:2004:a' % i for i in range(1, 8)] + ['graphite-b.example.com:2104:cache-0', '[::1]:2004:b']
  for n in (2, 3, 5, 8):
    for k, perm in enumerate(_it.islice(_it.permutations(hosts[:n + 1], n), 0, 40, 7)):
      yield {'conf_dests': list(perm), 'trailing_comma': k % 2 == 1}


def execute_conf_order(ctx, case):
  """'For a given ordered destination list': the list a relay works with is DESTINATIONS as written in carbon.conf,
  read by Settings.readFrom() and parsed by util.parseDestinations(), in that order."""
  import os
  b = env.bootstrap()
  from carbon import conf
  path = os.path.join(b.tmp, 'c06-carbon.conf')
  with open(path, 'w') as f:
    f.write('[relay]\nRELAY_METHOD = consistent-hashing\nDESTINATIONS = %s%s\n' % (
      ', '.join(case['conf_dests']), ''))
  st_ = env.need(conf, 'Settings')()
  st_.readFrom(path, 'relay')
  got = list(st_['DESTINATIONS'])
  if got != case['conf_dests']:
    ctx.fail('C06:destination-order-not-preserved', 'carbon.conf lists DESTINATIONS = %r, the daemon works with %r (join order decides '
             'which of two colliding replicas is bumped)' % (case['conf_dests'], got), case, 'compatibility')
    return
  try:
    parsed = [tuple(d) for d in b.util.parseDestinations(got)]
  except Exception as e:  # noqa
    ctx.fail('C06:destinations-rejected:%s' % type(e).__name__, 'parseDestinations(%r) raised %r' % (got, e), case)
    return
  want = []
  for d in case['conf_dests']:
    host, port, inst = d.rsplit(':', 2)
    want.append((host.strip('[]'), int(port), inst))
  if parsed != want:
    ctx.fail('C06:destination-order-not-preserved', 'DESTINATIONS %r parsed to %r' % (case['conf_dests'], parsed), case, 'compatibility')
    return
  ctx.note(case, nontrivial=len(got) >= 3, classes=['destination order through carbon.conf'], key=['conf'] + got)


def run(ctx):
  refring.selfcheck()
  if (ctx.shard or 0) == 0:
    for case in conf_order_cases():
      execute_conf_order(ctx, case)
  if ctx.quick:
    run_given(ctx, cases(exhaustive=True), execute, 3, salt=1)
    run_given(ctx, cases(), execute, 260, salt=2)
    run_given(ctx, edge_cases(), execute, 3, salt=3)
  else:
    run_given(ctx, cases(exhaustive=True), execute, 12, salt=1)
    run_given(ctx, cases(), execute, 500, salt=2)
    run_given(ctx, edge_cases(), execute, 6, salt=3)
