"""C20 - update and create rate limits hold over every time window."""
from hypothesis import strategies as st

from .. import cachesim, env, writersim
from ..hyp import run_given
from . import c02

LEVEL = 'exploration'
RULE = ('(a) TokenBucket histories on a virtual clock: capacity 1..1000, fill rate 1/60..1000 (incl. the writer\'s own '
        '(n, n/60) and (n, n) constructions), <=60 steps of non-blocking drain, bursts of drains, blocking drain '
        '(virtual sleep), peek, clock advances {0, 1e-9, 1/rate, 1, 1e6} and setCapacityAndFillRate as the shutdown '
        'trigger does; oracle: for every pair of grants i<j of one limit epoch (j-i+1) <= rate*(g_j-g_i) + 2*burst, a '
        'blocking call sleeps at most deficit/rate where the deficit comes from an independent continuously-refilled '
        'reference bucket, a non-blocking refusal only when that reference bucket is short, a limit change opens a new '
        'epoch that obeys the new (rate, burst). (b) the real writer thread with both buckets active (C03 harness, with '
        'the orderly stop changing the limits): the same window inequality over the virtual call times of '
        'database.write() and database.create(). Non-trivial = history with a burst right after a long idle period, a '
        'blocking acquisition that actually slept, or a limit change (bucket layer); a window of >= burst+2 calls '
        '(writer layer); distinct by hash of the case.')
ASSUMPTIONS = [
  'time is the virtual clock substituted for carbon.util.time/sleep',
  'the 2*burst allowance is the one the property states (lazy refill can grant one burst on top of a full bucket)',
  'floating point tolerance 1e-6 relative on the window bound',
]
SIGNATURES = ()

EPS = 1e-6


class VClock(object):
  def __init__(self):
    self.now = 1000000.0
    self.slept = []

  def time(self):
    return self.now

  oversleep = 0.0

  def sleep(self, dt):
    self.slept.append(dt)
    if dt > 0:
      # the thread may be woken up late (scheduler stall, suspended VM, clock step): the clock then shows more
      self.now += dt + self.oversleep


@st.composite
def bucket_cases(draw):
  kind = draw(st.integers(0, 3))
  if kind == 0:
    n = draw(st.integers(1, 1000))
    cap, rate = n, n / 60.0
  elif kind == 1:
    n = draw(st.integers(1, 1000))
    cap, rate = n, float(n)
  else:
    cap = draw(st.one_of(st.integers(1, 10), st.integers(1, 1000)))
    rate = draw(st.one_of(st.sampled_from([1 / 60.0, 0.1, 0.5, 1.0, 3.0, 50.0, 1000.0]),
                          st.floats(1 / 60.0, 1000.0, allow_nan=False)))
  ops = []
  for _ in range(draw(st.integers(1, 60))):
    k = draw(st.integers(0, 11))
    if k <= 2:
      ops.append(['drain'])
    elif k == 3:
      ops.append(['burst', draw(st.sampled_from([2, 5, 20, 200, 1100, 2500]))])
    elif k <= 5:
      ops.append(['drain_blocking', draw(st.sampled_from([0, 0, 0, 0.5, 120, 1000000]))])
    elif k == 6:
      ops.append(['peek'])
    elif k <= 9:
      ops.append(['advance', draw(st.sampled_from(['0', '1e-9', 'inv_rate', '1', '1e6', '0.3', '61']))])
    else:
      n = draw(st.sampled_from([1, 5, 50, 1000, 1000, int(cap), int(cap)]))
      ops.append(['set', n, n])
  if draw(st.integers(0, 5)) == 0:
    # shutdown-shaped history: quiet period, a flush starts, the limits change in the middle of it, the flush goes on
    n = draw(st.sampled_from([int(cap), int(cap), 1, 5, 50, 1000]))
    ops = ([['advance', draw(st.sampled_from(['1e6', '61', '1']))]] * draw(st.integers(0, 1)) +
           [['burst', draw(st.sampled_from([2, 5, 20, 200, 1100]))], ['set', n, n],
            ['burst', draw(st.sampled_from([20, 200, 1100, 2500]))]] + ops[:draw(st.integers(0, 6))])
  return {'layer': 'bucket', 'capacity': cap, 'rate': rate, 'ops': ops}


def check_windows(grants, rate, burst):
  """grants sorted times; returns (i, j) violating (j-i+1) <= rate*(gj-gi) + 2*burst, or None. O(n).
  Times are taken relative to the first grant so that the tolerance stays relative to the window, not to
  the absolute clock reading."""
  if not grants:
    return None
  base = grants[0]
  best = None
  best_i = None
  for j, g in enumerate(grants):
    cand = j - rate * (g - base)
    if best is None or cand < best:
      best, best_i = cand, j
    # (j - i + 1) - rate*(gj - gi) <= 2*burst   for the i minimising (i - rate*g_i)
    lhs = (cand - best) + 1
    tol = EPS * (1 + abs(rate * (g - grants[best_i])) + 2 * burst)
    if lhs > 2 * burst + tol:
      return best_i, j
  return None


def execute_bucket(ctx, case):
  b = env.bootstrap()
  clock = VClock()
  saved = (b.util.time, b.util.sleep)
  b.util.time = clock.time
  b.util.sleep = clock.sleep
  try:
    TokenBucket = env.need(b.util, 'TokenBucket')
    cap, rate = case['capacity'], case['rate']
    bucket = TokenBucket(cap, rate)
    epochs = [{'rate': float(rate), 'burst': float(cap), 'grants': [], 'start': clock.now}]
    ref_level = float(cap)      # independent reference bucket, refilled continuously, capped
    ref_time = clock.now
    flags = set()
    idle_since = clock.now
    # The reference bucket is a sound lower bound on what a lazily refilled bucket holds only while
    # limits do not decrease (after a decrease the time before the change may be refilled at the
    # lower rate); from a decrease on only the window inequality is judged.
    ref_valid = True

    def ref_refill():
      nonlocal ref_level, ref_time
      e = epochs[-1]
      ref_level = min(e['burst'], ref_level + e['rate'] * (clock.now - ref_time))
      ref_time = clock.now

    def grant():
      nonlocal ref_level
      epochs[-1]['grants'].append(clock.now)
      ref_level -= 1

    for op in case['ops']:
      kind = op[0]
      e = epochs[-1]
      if kind in ('drain', 'burst'):
        n = 1 if kind == 'drain' else op[1]
        for _ in range(n):
          ref_refill()
          before = clock.now
          ok = bucket.drain(1)
          if clock.now != before:
            ctx.fail('C20:nonblocking-slept', 'non-blocking drain advanced the clock', case)
            return
          if ok is True:
            if clock.now - idle_since >= 1000 and n > 1:
              flags.add('burst after long idle')
            grant()
          elif ok is False:
            if ref_valid and ref_level >= 1 + EPS:
              ctx.fail('C20:refused-with-tokens',
                       'non-blocking drain refused at t+%.6f although a continuously refilled bucket (capacity %s, rate %s) '
                       'holds %.6f tokens' % (clock.now - 1000000.0, e['burst'], e['rate'], ref_level), case, 'no-starvation')
              return
            break
          else:
            ctx.fail('C20:bad-return', 'drain returned %r' % (ok,), case)
            return
        idle_since = clock.now
      elif kind == 'drain_blocking':
        ref_refill()
        before = clock.now
        nsleeps = len(clock.slept)
        clock.oversleep = float(op[1]) if len(op) > 1 else 0.0
        try:
          ok = bucket.drain(1, blocking=True)
        finally:
          late = clock.oversleep if len(clock.slept) > nsleeps and clock.slept[-1] > 0 else 0.0
          clock.oversleep = 0.0
        waited = clock.now - before - late       # what the bucket asked to sleep
        if late:
          flags.add('woken up late from a blocking drain')
        allowed = max(0.0, 1 - ref_level) / e['rate']
        if ref_valid and waited > allowed + 1e-9 + EPS * allowed:
          ctx.fail('C20:blocking-waits-too-long',
                   'blocking drain slept %.9f s; the configured rate covers the deficit (%.6f tokens) in %.9f s' % (
                     waited, max(0.0, 1 - ref_level), allowed), case, 'blocking-bound')
          return
        if ok is not True:
          ctx.fail('C20:bad-return', 'blocking drain returned %r' % (ok,), case)
          return
        if waited > 0:
          flags.add('blocking drain slept')
        ref_refill()
        grant()
        idle_since = clock.now
      elif kind == 'peek':
        before = clock.now
        bucket.peek(1)
        if clock.now != before:
          ctx.fail('C20:nonblocking-slept', 'peek advanced the clock', case)
          return
      elif kind == 'advance':
        dt = {'inv_rate': 1.0 / e['rate']}.get(op[1])
        if dt is None:
          dt = float(op[1])
        clock.now += dt
      elif kind == 'set':
        ref_refill()
        bucket.setCapacityAndFillRate(op[1], op[2])
        if float(op[1]) < e['burst'] or float(op[2]) < e['rate']:
          ref_valid = False
          flags.add('limit decrease')
        # new epoch; the reference (lower-bound) bucket moves by the capacity delta, the documented
        # behaviour of a limit change; it never exceeds the new burst
        ref_level = ref_level + (float(op[1]) - e['burst'])
        epochs.append({'rate': float(op[2]), 'burst': float(op[1]), 'grants': [], 'start': clock.now})
        flags.add('limit change')
    for k, e in enumerate(epochs):
      bad = check_windows(e['grants'], e['rate'], e['burst'])
      if bad is not None:
        i, j = bad
        g = e['grants']
        ctx.fail('C20:window-exceeded',
                 'epoch %d (rate %s/s, burst %s): %d grants between t+%.6f and t+%.6f; the limit allows rate*w + 2*burst = %.3f' % (
                   k, e['rate'], e['burst'], j - i + 1, g[i] - 1000000.0, g[j] - 1000000.0,
                   e['rate'] * (g[j] - g[i]) + 2 * e['burst']), case, 'window')
        return
    # windows that span a limit change: judged against the more permissive of the two neighbouring limits
    # (a sound bound: before + after a change the bucket can hand out at most B_old + B_new <= 2*max(B) at one instant)
    for k in range(len(epochs) - 1):
      a, b2 = epochs[k], epochs[k + 1]
      both = a['grants'] + b2['grants']
      r, bst = max(a['rate'], b2['rate']), max(a['burst'], b2['burst'])
      bad = check_windows(both, r, bst)
      if bad is not None:
        i, j = bad
        ctx.fail('C20:window-exceeded-across-limit-change',
                 'limits (rate %s, burst %s) -> (rate %s, burst %s): %d grants between t+%.6f and t+%.6f, more than the more '
                 'permissive of the two limits allows (%.3f)' % (a['rate'], a['burst'], b2['rate'], b2['burst'], j - i + 1,
                                                                both[i] - 1000000.0, both[j] - 1000000.0,
                                                                r * (both[j] - both[i]) + 2 * bst), case, 'limit-change')
        return
    ctx.note(case, nontrivial=len(flags) >= 1 and sum(len(e['grants']) for e in epochs) >= 2,
             classes=['bucket'] + sorted(flags))
  finally:
    b.util.time, b.util.sleep = saved


# ---- writer layer ---------------------------------------------------------------
@st.composite
def writer_cases(draw):
  ups = draw(st.sampled_from([1, 2, 5]))
  cpm = draw(st.sampled_from([1, 2, 60]))
  counter = [0]
  recv = []
  metrics = ['m%d' % i for i in range(draw(st.integers(2, 9)))]
  for _ in range(draw(st.integers(3, 25))):
    k = draw(st.integers(0, 7))
    if k == 0:
      recv.append(['wait', draw(st.sampled_from([0.05, 0.5, 1, 3, 30, 70]))])
    else:
      counter[0] += 1
      recv.append(['store', draw(st.sampled_from(metrics)), draw(st.integers(1, 3)), counter[0]])
  if draw(st.booleans()):
    pos = draw(st.integers(1, len(recv)))
    recv = recv[:pos] + [['stop']]
  shutdown_rate = draw(st.sampled_from([None, 3, 1000]))
  if draw(st.integers(0, 3)) == 0:
    # a backlog of never-seen metrics waiting for their files when the stop arrives (creates limited to 1-2 a minute,
    # a small shutdown rate): what the changed limits grant afterwards is judged against the new burst
    metrics = ['n%d' % i for i in range(draw(st.integers(10, 24)))]
    recv = [['store', m, 1, i + 1] for i, m in enumerate(metrics)]
    if draw(st.booleans()):
      recv.insert(draw(st.integers(1, len(recv))), ['wait', draw(st.sampled_from([0.05, 1, 3]))])
    recv.append(['stop'])
    cpm = draw(st.sampled_from([1, 2]))
    shutdown_rate = draw(st.sampled_from([2, 3]))
  elif draw(st.integers(0, 2)) == 0:
    # a steady trickle of never-seen metrics, a few seconds apart, under a create limit of 1-2 per minute: over a
    # minute or two at most burst + rate * t files may appear
    metrics = ['t%d' % i for i in range(draw(st.integers(6, 14)))]
    recv = []
    for i, m in enumerate(metrics):
      recv.append(['store', m, 1, i + 1])
      recv.append(['wait', draw(st.sampled_from([1, 3, 3, 10, 30]))])
    cpm = draw(st.sampled_from([1, 2]))
  return {'layer': 'writer', 'strategy': draw(st.sampled_from(cachesim.STRATEGIES)), 'lag': 0, 'recv': recv,
          'updates_per_second': ups, 'creates_per_minute': cpm,
          'shutdown_rate': shutdown_rate,
          'precreated': draw(st.lists(st.sampled_from(metrics), unique=True, max_size=5)),
          'switches': draw(c02.switch_lists(max_switches=8, max_gap=80)), 'first': draw(st.integers(0, 1)),
          'end_wait': draw(st.sampled_from([2, 65])),
          # a backend that fails (full disk, permissions): failed create() / write() calls reach the backend too and
          # are what the limits are there to pace
          'faults': ({str(i): 'enospc' for i in range(draw(st.integers(0, 6)), 400, draw(st.sampled_from([1, 2, 3])))}
                     if draw(st.integers(0, 3)) == 0 else {})}


def execute_writer(ctx, case):
  run = writersim.run_case(case)
  if run.aborted == 'step-limit':
    if run.recv_exc is not None:
      ctx.fail('C20:receiving-side-raised', 'the receiving thread died with %r and the writer never stopped' % (run.recv_exc,), case)
      return
    ctx.count('inconclusive: step limit')
    return
  if run.aborted or run.writer_exc is not None or run.recv_exc is not None:
    ctx.fail('C20:writer-run-failed', 'aborted=%r writer_exc=%r recv_exc=%r' % (run.aborted, run.writer_exc, run.recv_exc), case)
    return
  stop = run.stop_time
  shut = case.get('shutdown_rate')
  nt = False
  for kind, rate, burst in (('write', float(case['updates_per_second']), float(case['updates_per_second'])),
                            ('create', case['creates_per_minute'] / 60.0, float(case['creates_per_minute']))):
    times = [ev[1][5] for ev in run.events if ev[0] == 'call' and ev[1][1] == kind]
    # the limit change happens at the stop; calls at exactly that instant may fall on either side
    if shut is not None and stop is not None:
      epochs = [([t for t in times if t < stop], rate, burst), ([t for t in times if t > stop], float(shut), float(shut))]
      at = [t for t in times if t == stop]
      if at:
        # attribute them to the more permissive side
        if shut >= rate:
          epochs[1] = (at + epochs[1][0], float(shut), float(shut))
        else:
          epochs[0] = (epochs[0][0] + at, rate, burst)
    else:
      epochs = [(times, rate, burst)]
    for k, (ts, r, bst) in enumerate(epochs):
      bad = check_windows(ts, r, bst)
      if bad is not None:
        i, j = bad
        ctx.fail('C20:writer-window-exceeded:%s' % kind,
                 '%d database.%s() calls between t+%.3f and t+%.3f with limit rate %.4f/s burst %s (allows %.3f) [epoch %d]' % (
                   j - i + 1, kind, ts[i] - writersim.T0, ts[j] - writersim.T0, r, bst, r * (ts[j] - ts[i]) + 2 * bst, k),
                 case, 'writer-window')
        return
      if len(ts) >= bst + 2:
        nt = True
  ctx.note(case, nontrivial=nt, classes=['writer', 'ups=%s' % case['updates_per_second'], 'cpm=%s' % case['creates_per_minute']] +
           (['failing backend calls'] if case.get('faults') else []) +
           (['limit change at stop'] if shut is not None else []))


def limit_change_race_cases():
  """The writer's bucket is shared, without a lock, by the reactor thread (limits lowered at shutdown) and the writer
  thread: one writer-side operation lands between any two lines of setCapacityAndFillRate()."""
  for (cap, rate) in ((20, 20.0), (1000, 1000.0), (60, 1.0)):
    for (ncap, nrate) in ((2, 2.0), (10, 10.0)):
      if ncap >= cap:
        continue
      for used in (1, cap - 1):        # (cap - 1: the balance goes negative when the capacity is lowered)
        for idle in (0.5, 30.0):
          for other in ('peek', 'drain', 'blocking-drain'):
            yield {'layer': 'race', 'capacity': cap, 'rate': rate, 'new_capacity': ncap, 'new_rate': nrate, 'used': used,
                   'idle': idle, 'other': other}


def execute_race(ctx, case):
  from ..sched import Sched
  b = env.bootstrap()
  TokenBucket = env.need(b.util, 'TokenBucket')
  saved = (b.util.time, b.util.sleep)
  steps = None
  k = 0
  worst = 0
  try:
    while True:
      k += 1
      if steps is not None and k > steps + 2:
        break
      sched = Sched([[k, 1]], [b.util.__file__], start=1600000000.0, max_steps=5000)
      b.util.time = sched.time.time
      b.util.sleep = sched.sleep
      bucket = TokenBucket(case['capacity'], case['rate'])
      for _ in range(case['used']):
        bucket.drain(1)
      sched.now += case['idle']                 # a lightly loaded daemon: nothing looked at the bucket for a while

      def reactor_side():
        bucket.setCapacityAndFillRate(case['new_capacity'], case['new_rate'])

      def writer_side():
        if case['other'] == 'peek':
          bucket.peek(1)
        elif case['other'] == 'drain':
          bucket.drain(1)
        else:
          bucket.drain(1, blocking=True)
      sched.spawn('reactor', reactor_side)
      sched.spawn('writer', writer_side)
      t_change = sched.now
      sched.run(0)
      for t in sched.threads:
        if t.exc is not None:
          ctx.fail('C20:bucket-raised:%s' % type(t.exc).__name__, 'limit change racing with %s raised %r' % (case['other'], t.exc), case)
          return
      if steps is None:
        steps = sched.steps
      # everything the bucket grants at this very instant after the change: at most the new burst
      waited = sched.now - t_change
      grants = 0
      while bucket.drain(1) and grants < 5000:
        grants += 1
      # what was left after the change (at most the new burst) plus one lazy refill, which credits the time since the
      # bucket was last looked at, at the NEW rate and capped at the new burst
      allowed = case['new_capacity'] + min(case['new_capacity'], case['new_rate'] * (case['idle'] + waited)) + 1
      worst = max(worst, grants)
      if grants > allowed:
        ctx.fail('C20:window-exceeded-across-limit-change',
                 'limits lowered from %s/%s to %s/%s while the writer thread ran %s between two lines of the change (preemption at '
                 'step %d): %d acquisitions granted at once afterwards, the new burst is %s (one lazy refill on top at most)' % (
                   case['capacity'], case['rate'], case['new_capacity'], case['new_rate'], case['other'], k, grants,
                   case['new_capacity']), dict(case, preempt_at=k), 'limit-change')
        return
      ctx.evaluations += 1
  finally:
    b.util.time, b.util.sleep = saved
  ctx.note(case, nontrivial=True, classes=['limit change racing with a writer-side %s' % case['other']],
           key=[case['capacity'], case['new_capacity'], case['used'], case['idle'], case['other']])


def execute(ctx, case):
  if case.get('layer') == 'writer':
    return execute_writer(ctx, case)
  if case.get('layer') == 'race':
    return execute_race(ctx, case)
  return execute_bucket(ctx, case)


def run(ctx):
  if (ctx.shard or 0) == 0:
    for case in limit_change_race_cases():
      execute(ctx, case)
  run_given(ctx, bucket_cases(), execute, ctx.scale(2500, 9000), salt=1)
  run_given(ctx, writer_cases(), execute, ctx.scale(350, 1500), salt=2)
