"""C14 - no metric name can place a file outside the data directory."""
import itertools
import os

from hypothesis import strategies as st

from .. import env
from ..core import HarnessError
from ..hyp import run_given

LEVEL = 'exploration'
RULE = ("Exhaustive: every string of length <= 5 (quick) / <= 6 (thorough) over the alphabet . / ; = ~ _ a e-acute - "
        "backslash, x both TAG_HASH_FILENAMES values x WhisperDatabase and CeresDatabase (carbon's real classes over stub "
        'backend libraries); Hypothesis: long names built from path-attack tokens (.., /, //, /./, ~, ;a=.., absolute '
        'prefixes, unicode look-alikes, long segments), NUL-free. Oracle: realpath and normpath of getFilesystemPath(name) '
        'lie strictly inside realpath(LOCAL_DATA_DIR), two calls agree, untagged names of non-empty dot-separated '
        'segments without / map injectively; for a sample the file is really created through the plugin in '
        'sandbox/outer/data (only after the pure check passed) and every file under the sandbox is then under the data '
        "directory. Non-trivial = name contains '/' or a leading/double dot or a ';' together with '.'; distinct by "
        '(name, hash_filenames).')
ASSUMPTIONS = [
  'whisper and ceres are not installed: stub modules provide file creation and, for ceres, the library\'s documented node mapping CeresTree.getFilesystemPath = join(root, nodePath.replace(".", os.sep)); the path logic under test is carbon\'s own',
  'metric names are NUL-free (the OS API rejects NUL)',
  'the data directory itself contains no symlinks created by the daemon',
]
SIGNATURES = ()

ALPHABET = ['.', '/', ';', '=', '~', '_', 'a', 'é', '-', '\\']
_dbs = {}


def setup():
  b = env.bootstrap(stub_backends=True)
  from carbon import database
  if not hasattr(database, 'WhisperDatabase') or not hasattr(database, 'CeresDatabase'):
    raise HarnessError('WhisperDatabase/CeresDatabase not defined (stub backends not in place before the first carbon import)')
  root = os.path.join(b.tmp, 'sandbox')
  data = os.path.join(root, 'outer', 'data')
  os.makedirs(data, exist_ok=True)
  return b, database, root, data


def get_db(kind, hash_filenames):
  key = (kind, hash_filenames)
  if key in _dbs:
    return _dbs[key]
  b, database, root, data = setup()
  env.reset(LOCAL_DATA_DIR=data, TAG_HASH_FILENAMES=hash_filenames)
  cls = database.WhisperDatabase if kind == 'whisper' else database.CeresDatabase
  db = cls(b.settings)
  _dbs[key] = (db, root, os.path.realpath(data))
  return _dbs[key]


_other = {}


def other_instance(hash_filenames):
  """A second WhisperDatabase in the same process with another LOCAL_DATA_DIR (two daemons' worth of plugins, a
  test fixture, a migration tool): its paths lie in ITS directory whatever the first instance resolved before."""
  if hash_filenames not in _other:
    b, database, root, data = setup()
    data2 = os.path.join(b.tmp, 'sandbox-two', 'data')     # (outside the swept sandbox of the first instance)
    os.makedirs(data2, exist_ok=True)
    saved = dict(b.settings)
    b.settings['LOCAL_DATA_DIR'] = data2
    b.settings['TAG_HASH_FILENAMES'] = hash_filenames
    try:
      _other[hash_filenames] = (database.WhisperDatabase(b.settings), os.path.realpath(data2))
    finally:
      b.settings.clear()
      b.settings.update(saved)
  return _other[hash_filenames]


def inside(path, data_real):
  return path.startswith(data_real + os.sep) and path != data_real


def check_name(ctx, name, hash_filenames, kind, create=False, full=False, walk=False):
  db, root, data_real = get_db(kind, hash_filenames)
  case = {'name': name, 'hash_filenames': hash_filenames, 'backend': kind}
  try:
    p1 = db.getFilesystemPath(name)
    p2 = db.getFilesystemPath(name)
  except Exception as e:  # noqa
    ctx.fail('C14:path-function-raised:%s' % type(e).__name__, '%s.getFilesystemPath(%r) raised %r' % (kind, name, e), case)
    return None
  if p1 != p2:
    ctx.fail('C14:nondeterministic-path', '%r -> %r then %r' % (name, p1, p2), case, 'deterministic')
    return None
  norm = os.path.normpath(os.path.join(data_real, p1))
  real = os.path.realpath(p1) if (create or full) else norm
  # the data directory itself (empty node path) is not an escape
  if not ((inside(norm, data_real) or norm == data_real) and (inside(real, data_real) or real == data_real)):
    sig = 'C14:escapes-data-dir:%s' % kind
    if kind == 'ceres':
      node = db.encode(name)
      if node.startswith('/'):
        sig = 'C14:ceres-absolute-node-path'
    ctx.fail(sig, '%s backend, TAG_HASH_FILENAMES=%s: metric %r maps to %r (normalised %r) which is not inside the data '
             'directory %r' % (kind, hash_filenames, name, p1, norm, data_real), case, 'confinement')
    return None
  if kind == 'whisper' and full:
    # exists() - which the writer calls before every create and write - may look at and move files: every path it
    # touches lies inside the data directory too
    touched = []
    from carbon import database as dbmod
    real_exists, real_rename = env.need(dbmod, 'exists'), os.rename

    def spy_exists(p_):
      touched.append(('exists', p_))
      return real_exists(p_)

    def spy_rename(a_, b_, *x, **kw):
      touched.append(('rename', a_))
      touched.append(('rename', b_))
      return real_rename(a_, b_, *x, **kw)
    dbmod.exists = spy_exists
    os.rename = spy_rename
    try:
      try:
        db.exists(name)
      except OSError:
        pass
      except Exception as e:  # noqa
        ctx.fail('C14:exists-raised:%s' % type(e).__name__, 'exists(%r) raised %r' % (name, e), case)
        return None
    finally:
      dbmod.exists = real_exists
      os.rename = real_rename
    for what, p_ in touched:
      np_ = os.path.normpath(os.path.join(data_real, p_))
      if not (inside(np_, data_real) or np_ == data_real):
        ctx.fail('C14:escapes-data-dir:whisper', 'exists(%r) %s %r, which is not inside the data directory %r' % (
          name, 'looks at' if what == 'exists' else 'renames', p_, data_real), case, 'confinement')
        return None
    db2, data2 = other_instance(hash_filenames)
    try:
      q = db2.getFilesystemPath(name)
    except Exception as e:  # noqa
      ctx.fail('C14:path-function-raised:%s' % type(e).__name__, 'second instance: getFilesystemPath(%r) raised %r' % (name, e), case)
      return None
    nq = os.path.normpath(os.path.join(data2, q))
    if not (inside(nq, data2) or nq == data2):
      ctx.fail('C14:escapes-data-dir:whisper', 'a second WhisperDatabase with LOCAL_DATA_DIR %r maps %r to %r, which is not inside '
               'its data directory (the first instance had resolved the name before)' % (data2, name, q), case, 'confinement')
      return None
  if create:
    try:
      db.create(name, [(60, 10)], 0.5, 'average')
    except OSError as e:
      # name too long for the filesystem etc.: nothing was placed anywhere
      ctx.count('create refused by the OS: %s' % e.__class__.__name__)
    except Exception as e:  # noqa
      if 'already exists' not in str(e):
        ctx.fail('C14:create-raised:%s' % type(e).__name__, 'create(%r) raised %r' % (name, e), case)
        return None
    if walk and not sweep_sandbox(ctx, case):
      return None
  return p1


def sweep_sandbox(ctx, case):
  db, root, data_real = get_db('whisper', True)
  for dirpath, dirnames, filenames in os.walk(root):
    for fn in filenames + dirnames:
      fullp = os.path.realpath(os.path.join(dirpath, fn))
      if not (inside(fullp, data_real) or data_real.startswith(fullp)):
        ctx.fail('C14:file-created-outside', 'a create call left %r outside the data directory' % (fullp,), case)
        return False
  return True


def nontrivial(name):
  return '/' in name or name.startswith('.') or '..' in name or (';' in name and '.' in name)


def execute(ctx, case):
  p = check_name(ctx, case['name'], case['hash_filenames'], case['backend'], create=case.get('create', False),
                 full=True, walk=ctx.replaying)
  if p is not None:
    ctx.note(case, nontrivial=nontrivial(case['name']), classes=[case['backend'], 'hash=%s' % case['hash_filenames']],
             key=[case['name'], case['hash_filenames'], case['backend']])


TOKENS = ['..', '/', '//', '/./', '~', ';a=..', ';a=/etc', '/etc/passwd', '/root/', '.', '...', 'a', 'metric', 'x' * 200,
          '․', '∕', '．', '／', ';', '=', '_tagged', '_DOT_', '.wsp', '\\', ' ', '%2e%2e', '\r\n', '-', 'é',
          ';b=~x', '~root', '$HOME', '*', '.' * 300, '/' * 50, '../' * 40]


ATTACKS = ['../' * 8, '/../../../../../../etc/x', '/' + '../' * 12 + 'tmp/x', '..' + '/..' * 9, '/./../' * 6, '/etc/cron.d/x',
           '/.', '/..', '.', '..', '//', '/a/../../../../..', '..;x=/../../../..', '/' * 3 + '..' + '/..' * 7]


def long_names():
  free = st.lists(st.sampled_from(TOKENS), min_size=1, max_size=10).map(''.join)
  head = st.sampled_from(['m', 'a.b', '', '.', '/', '~', 'm;t=v', 'm;t=', ';', 'a.b;x=y.z', '_tagged', 'm;a=1;b=2'])
  mid = st.sampled_from(['', ';k=', ';k=v', '.', '/', ';'])
  structured = st.tuples(head, mid, st.sampled_from(ATTACKS), st.sampled_from(['', 'x', '.wsp', '/x', ';z=1'])).map(''.join)
  return st.one_of(free, structured)


# ---- the path function is shared by the writer thread and the reactor thread (metadata requests) -----------
@st.composite
def thread_cases(draw):
  names = st.one_of(long_names(), st.sampled_from(['a.b', 'a.c', 'm;t=v', 'x.y.z', 'servers.web.cpu']))
  return {'threads': [draw(st.lists(names, min_size=1, max_size=4)), draw(st.lists(names, min_size=1, max_size=4))],
          'hash_filenames': draw(st.booleans()), 'backend': draw(st.sampled_from(['whisper', 'whisper', 'ceres'])),
          'switches': [[k, 1] for k in sorted(set(draw(st.lists(st.integers(1, 60), max_size=8))))],
          'first': draw(st.integers(0, 1))}


def execute_threads(ctx, case):
  from ..sched import Sched
  b, database, root, data = setup()
  db, root, data_real = get_db(case['backend'], case['hash_filenames'])
  progs = [[n.replace('\x00', '') for n in p] for p in case['threads']]
  try:
    want = [[db.getFilesystemPath(n) for n in p] for p in progs]
  except Exception:
    return
  got = [[], []]
  sched = Sched(case['switches'], [database.__file__, b.util.__file__])

  def body(i):
    def f():
      for n in progs[i]:
        got[i].append(db.getFilesystemPath(n))
    return f
  sched.spawn('writer', body(0))
  sched.spawn('reactor', body(1))
  sched.run(case.get('first', 0))
  for t in sched.threads:
    if t.exc is not None:
      ctx.fail('C14:path-function-raised:%s' % type(t.exc).__name__, 'getFilesystemPath raised %r under two threads' % (t.exc,), case)
      return
  if got != want:
    ctx.fail('C14:nondeterministic-path', 'two threads asking one %s database for paths: got %r, the mapping gives %r' % (
      case['backend'], got, want), case, 'deterministic')
    return
  ctx.note(case, nontrivial=len(sched.preemptions()) > 0 and progs[0] != progs[1], classes=['two threads', case['backend']])


_execute_single = execute


# ---- injectivity beyond the enumerated lengths: pairs of near-identical untagged names built from the words
# the encoding treats specially
WORDS = ['_tagged', '__tagged', '___tagged', 'tagged', '_', '__', '_DOT_', 'DOT', 'a', 'b', 'a_b', 'a_DOT_b', 'wsp', 'a-b',
         '~', '=', 'é', '\\', '-', '000', 'a=b', '_tagged_', 'x' * 40,
         # nodes around the file-name length limit that differ only at the end
         'n' * 250 + 'a', 'n' * 250 + 'b', 'n' * 251 + 'a', 'n' * 251 + 'b', 'n' * 254 + 'a', 'n' * 254 + 'b', 'n' * 300]


@st.composite
def pair_cases(draw):
  segs = draw(st.lists(st.sampled_from(WORDS), min_size=1, max_size=5))
  other = list(segs)
  how = draw(st.integers(0, 7))
  i = draw(st.integers(0, len(segs) - 1))
  if how == 0:
    other[i] = '_' + other[i]
  elif how == 1 and other[i].startswith('_') and len(other[i]) > 1:
    other[i] = other[i][1:]
  elif how == 2 and len(other) > 1:
    j = draw(st.integers(0, len(other) - 2))
    other[j:j + 2] = [other[j] + draw(st.sampled_from(['_DOT_', '_', '-', '__'])) + other[j + 1]]
  elif how == 3:
    other[i] = draw(st.sampled_from(WORDS))
  elif how == 4:
    other = other[::-1]
  elif how == 5:
    other = other + [draw(st.sampled_from(WORDS))]
  elif how == 6:
    # only the last character of one node differs (and a long node often: beyond any truncation point)
    i = max(range(len(other)), key=lambda k: len(other[k])) if draw(st.booleans()) else i
    other[i] = other[i][:-1] + ('b' if other[i][-1] != 'b' else 'c')
  else:
    other = draw(st.lists(st.sampled_from(WORDS), min_size=1, max_size=5))
  return {'pair': ['.'.join(segs), '.'.join(other)], 'hash_filenames': draw(st.booleans()),
          'backend': draw(st.sampled_from(['whisper', 'ceres']))}


def execute_pair(ctx, case):
  n1, n2 = case['pair']
  ps = []
  for n in (n1, n2):
    p = check_name(ctx, n, case['hash_filenames'], case['backend'])
    if p is None:
      return
    ps.append(p)
  if n1 != n2 and ps[0] == ps[1]:
    ctx.fail('C14:path-collision', 'distinct untagged names %r and %r map to the same path %r (%s backend)' % (
      n1, n2, ps[0], case['backend']), case, 'injective')
    return
  ctx.note(case, nontrivial=n1 != n2, classes=['pair of near-identical names', case['backend']], key=[n1, n2, case['backend']])


def migration_fault_cases():
  for name in ('svc.req;env=prod', 'a;b=c;z=1', 'm;t=v'):
    for err in ('EXDEV', 'EACCES'):
      yield {'migrate': name, 'errno': err}


def execute_migration(ctx, case):
  """History + fault: a tagged series has a file under its readable name (written while TAG_HASH_FILENAMES was off);
  with hashing on, exists() tries to move it to the hashed name and the rename fails.  Whatever exists() does about
  that, the name -> path mapping of the instance stays what it was."""
  import errno
  name = case['migrate']
  old_db, _, _ = get_db('whisper', False)
  db, root, data_real = get_db('whisper', True)
  before = db.getFilesystemPath(name)
  try:
    old_db.create(name, [(60, 10)], 0.5, 'average')
  except Exception as e:  # noqa
    if 'already exists' not in str(e):
      raise HarnessError('could not create the old-style file: %r' % (e,))
  real_rename = os.rename

  def failing_rename(src, dst, *a, **kw):
    raise OSError(getattr(errno, case['errno']), os.strerror(getattr(errno, case['errno'])))
  os.rename = failing_rename
  try:
    try:
      db.exists(name)
    except OSError:
      pass                      # reporting the failure is fine
  finally:
    os.rename = real_rename
  after = db.getFilesystemPath(name)
  other = db.getFilesystemPath('x.y;env=prod')
  again = get_db('whisper', True)[0].getFilesystemPath('x.y;env=prod')
  if after != before or '_DOT_' in other.replace(data_real, '') and '_DOT_' not in before.replace(data_real, ''):
    ctx.fail('C14:nondeterministic-path', 'after a failed migration rename (%s) in exists(%r) the same instance maps %r to %r '
             '(before: %r) and a fresh tagged name to %r' % (case['errno'], name, name, after, before, other), case, 'deterministic')
    return
  ctx.note(case, nontrivial=True, classes=['failed migration rename in exists()'], key=[name, case['errno']])


def execute(ctx, case):  # noqa: dispatch
  if 'migrate' in case:
    return execute_migration(ctx, case)
  if 'threads' in case:
    return execute_threads(ctx, case)
  if 'pair' in case:
    return execute_pair(ctx, case)
  return _execute_single(ctx, case)


def run(ctx):
  setup()
  maxlen = 5 if ctx.quick else 6
  paths = {}
  n = 0
  created = 0
  for length in range(0, maxlen + 1):
    for idx, tup in enumerate(itertools.product(ALPHABET, repeat=length)):
      if not ctx.quick and length == maxlen and idx % ctx.nshards != (ctx.shard or 0):
        continue
      name = ''.join(tup)
      n += 1
      for hf in (True, False):
        for kind in ('whisper', 'ceres'):
          do_create = kind == 'whisper' and length <= 3 and (idx % 7 == 0)
          p = check_name(ctx, name, hf, kind, create=do_create, full=(idx % 16 == 0))
          if p is None:
            break
          created += 1 if do_create else 0
          ctx.evaluations += 1
          if nontrivial(name):
            ctx.nontrivial.add('%x' % (hash((name, hf, kind)) & 0xffffffffffff))
          # injectivity on the documented class of names
          if kind == 'whisper' and hf and name and ';' not in name and '/' not in name and all(name.split('.')):
            if p in paths and paths[p] != name:
              ctx.fail('C14:path-collision', 'distinct names %r and %r map to the same file %r' % (paths[p], name, p),
                       {'name': name, 'other': paths[p], 'hash_filenames': hf, 'backend': kind}, 'injective')
            paths[p] = name
  ctx.extra['names_enumerated'] = n
  ctx.extra['max_length'] = maxlen
  ctx.extra['files_created'] = created
  ctx.exhaustive = True
  ctx.samples.append({'name': '../a/.', 'hash_filenames': True, 'backend': 'whisper', 'note': 'one of the enumerated names'})
  cases = st.builds(lambda nm, hf, kind, cr: {'name': nm.replace('\x00', ''), 'hash_filenames': hf, 'backend': kind, 'create': cr},
                    long_names(), st.booleans(), st.sampled_from(['whisper', 'ceres']), st.integers(0, 5).map(lambda x: x == 0))
  run_given(ctx, cases, execute, ctx.scale(2500, 8000), salt=1)
  sweep_sandbox(ctx, {'note': 'final sweep of the sandbox after all create calls'})
  run_given(ctx, thread_cases(), execute, ctx.scale(400, 2500), salt=2)
  run_given(ctx, pair_cases(), execute, ctx.scale(2500, 12000), salt=3)
  if (ctx.shard or 0) == 0:
    for case in migration_fault_cases():
      execute(ctx, case)
