"""C18 - tagged series names normalise to one canonical form."""
import itertools

from hypothesis import strategies as st

from .. import env
from ..core import HarnessError
from ..hyp import run_given

LEVEL = 'exploration'
RULE = ('Series = name (non-empty, no ";") + tag set of 0-4 unique keys built from syntax-bearing tokens ({ } " "} =" ", '
        'backslash, \\" , ~ ! ^ = letters, unicode) so that fragments of the other syntax occur often; valid sets obey the '
        'documented rules; invalid variants (empty key/value, prohibited characters, leading ~, missing =, empty name) for '
        'the rejection clause; with and without an explicit name tag. Renderings: carbon syntax in ALL permutations of '
        'the tag list, OpenMetrics syntax (escaped) in all permutations. Oracle: all carbon permutations normalise to one '
        'string N; every OpenMetrics rendering the parser accepts gives the same N; N(N)=N; N splits (independent splitter) '
        'into exactly the generated name and tag map; invalid names raise and are stored/relayed byte-for-byte by '
        'CacheFeedingProcessor / RelayProcessor. Non-trivial = >=2 tags and a reserved character in a value, or an '
        'OpenMetrics rendering needing escapes; distinct by hash of (name, tags).')
ASSUMPTIONS = [
  'tag rules as documented: key non-empty without ;!^=, value non-empty without ; and not starting with ~; the metric name is used as the name tag with leading ~ stripped',
  'a string without ";" that ends in "} and contains { IS OpenMetrics syntax; for such renderings only canonicity (idempotence, agreement) is checked, not the carbon reading',
  'OpenMetrics renderings the parser rejects (e.g. a { inside a value) are outside the comparison, as the design states',
  'the particular tag order chosen by the normal form is not prescribed',
]
SIGNATURES = ('name-tag-only-on-openmetrics-shaped-name',)

TOK = ['a', 'b', 'cpu', 'x1', '{', '}', '"', '"}', '="', '",', ',', '\\', '\\\\', '\\"', '~', '!', '^', '=', '.', '-', 'é', '日',
       ' ', '{k="v"}', '{b="', 'k="v"', '"}{', ':', '/', '#', "'"]


def text_from(tokens, min_size=1, max_size=4):
  return st.lists(st.sampled_from(tokens), min_size=min_size, max_size=max_size).map(''.join)


KEY_TOK = [t for t in TOK if not any(c in t for c in ';!^=')]
VAL_TOK = [t for t in TOK if ';' not in t]
NAME_TOK = [t for t in TOK if ';' not in t]


@st.composite
def valid_series(draw):
  name = draw(st.one_of(text_from(NAME_TOK), text_from(NAME_TOK), text_from(NAME_TOK), st.sampled_from(['~', '~~', '~a', '~~x.y'])))
  keys = draw(st.lists(st.one_of(text_from(KEY_TOK, 1, 2), text_from(KEY_TOK, 1, 2), st.just('name')), unique=True, max_size=4))
  tags = []
  for k in keys:
    v = draw(text_from(VAL_TOK, 1, 3))
    if v.startswith('~'):
      v = 'v' + v
    tags.append([k, v])
  return {'kind': 'valid', 'name': name, 'tags': tags}


@st.composite
def invalid_series(draw):
  base = draw(valid_series())
  name, tags = base['name'], base['tags']
  how = draw(st.integers(0, 8))
  segs = ['%s=%s' % (k, v) for k, v in tags if k != 'name']
  bad = {0: '=v', 1: 'k=', 2: 'k!x=v', 3: 'k^=v', 4: 'k=~v', 5: 'kv', 6: '', 7: '', 8: ''}[how]
  if how == 6:
    raw = ';' + ';'.join(segs + ['a=1'])        # empty metric name
  elif how == 7:
    if ';' in name or not name:
      name = 'm'
    raw = name + ';'                            # a lone trailing separator: one empty tag segment
  else:
    pos = draw(st.integers(0, len(segs)))
    segs.insert(pos, bad)
    if ';' in name or not name:
      name = 'm'
    raw = name + ';' + ';'.join(segs)
  return {'kind': 'invalid', 'raw': raw}


@st.composite
def invalid_openmetrics(draw):
  """OpenMetrics-syntax names that violate the tag rules: one pair of an otherwise well-formed tag list is broken
  (empty tag, empty value, '=' inside the tag, junk after the closing quote, prohibited character, value starting
  with ~), at any position."""
  pairs = [[draw(st.sampled_from(['k', 'env', 'a-b', 'x1'])) + str(i), draw(st.sampled_from(['v', 'prod', 'a b', 'x,y', 'q}']))]
           for i in range(draw(st.integers(1, 4)))]
  pos = draw(st.integers(0, len(pairs) - 1))
  how = draw(st.integers(0, 6))
  if pos == len(pairs) - 1 and how in (3, 6):
    how = draw(st.sampled_from([0, 1, 2, 4, 5]))    # the string has to keep its OpenMetrics shape (end in "})
  rendered = ['%s="%s"' % (k, om_escape(v)) for k, v in pairs]
  k, v = pairs[pos]
  rendered[pos] = {0: '="%s"' % v, 1: '%s=""' % k, 2: '%s=x="%s"' % (k, v), 3: '%s="%s"x' % (k, v), 4: '%s!="%s"' % (k, v),
                   5: '%s="~%s"' % (k, v), 6: '%s="%s' % (k, v)}[how]
  name = draw(st.sampled_from(['a', 'cpu.load', 'm-1', 'é']))
  return {'kind': 'invalid', 'raw': name + '{' + ','.join(rendered) + '}', 'syntax': 'openmetrics'}


def split_normal_form(n):
  """Independent splitter: name;k=v;k=v -> (name, {k: v}) or None."""
  parts = n.split(';')
  tags = {}
  for seg in parts[1:]:
    if '=' not in seg:
      return None
    k, v = seg.split('=', 1)
    if k in tags:
      return None
    tags[k] = v
  return parts[0], tags


def om_escape(v):
  return v.replace('\\', '\\\\').replace('"', '\\"')


def looks_openmetrics(s):
  return ';' not in s and s.endswith('"}') and '{' in s


class FakeManager(object):
  def __init__(self):
    self.sent = []

  def sendDatapoint(self, metric, datapoint):
    self.sent.append((metric, datapoint))


def normalise(b, x):
  """N(x) = TaggedSeries.parse(x).path, or x if parsing raises (the pipeline's fallback)."""
  TS = env.need(b.util, 'TaggedSeries')
  try:
    return TS.parse(x).path, True
  except Exception:
    return x, False


def through_processors(b, x):
  """The names under which the write and relay processors pass the datapoint on."""
  env.reset(CACHE_WRITE_STRATEGY='sorted', TAG_RELAY_NORMALIZED=True)
  proc = env.need(b.cache, 'CacheFeedingProcessor')()
  try:
    proc.process(x, (1500000000.0, 1.0))
  except Exception as e:  # noqa: the datapoint is gone; reported as the name it was stored under
    return ['<write processor raised %r>' % (e,)], []
  cache = b.cache.MetricCache()
  stored = list(dict.keys(cache))
  mgr = FakeManager()
  b.state.client_manager = mgr
  rp = env.need(b.client, 'RelayProcessor')()
  try:
    rp.process(x, (1500000000.0, 1.0))
  except Exception as e:  # noqa
    return stored, ['<relay processor raised %r>' % (e,)]
  return stored, [m for m, _ in mgr.sent]


def execute(ctx, case):
  if case['kind'] == 'long-lived':
    return execute_long_lived(ctx, case)
  b = env.bootstrap()
  if case['kind'] == 'invalid':
    raw = case['raw']
    n, accepted = normalise(b, raw)
    if accepted:
      ctx.fail('C18:invalid-name-accepted', 'name %r violates the tag rules but the parser accepted it as %r' % (raw, n), case, 'rejection')
      return
    stored, relayed = through_processors(b, raw)
    if stored != [raw] or relayed != [raw]:
      ctx.fail('C18:rejected-name-altered', 'rejected name %r was stored as %r and relayed as %r' % (raw, stored, relayed), case, 'as-received')
      return
    ctx.note(case, nontrivial=True, classes=['invalid', 'invalid:' + case.get('syntax', 'carbon')])
    return
  name = case['name']
  tags = [tuple(t) for t in case['tags']]
  want_tags = dict((k, v) for k, v in tags if k != 'name')
  want_name = name.lstrip('~')
  perms = list(itertools.permutations(tags))
  results = {}
  for perm in perms:
    x = name + ''.join(';%s=%s' % kv for kv in perm)
    results[x] = normalise(b, x)
  forms = set(n for n, ok in results.values())
  involved_dispatch = any(looks_openmetrics(x) for x in results) or any(looks_openmetrics(n) for n in forms)
  if not name.lstrip('~'):
    # a name of only ~ cannot be a tag value: the parser must reject every rendering
    if any(ok for n, ok in results.values()):
      ctx.fail('C18:invalid-name-accepted', 'metric name %r accepted' % name, case)
      return
    raw = next(iter(results))
    stored, relayed = through_processors(b, raw)
    if stored != [raw] or relayed != [raw]:
      ctx.fail('C18:rejected-name-altered', 'rejected name %r was stored as %r and relayed as %r' % (raw, stored, relayed), case, 'as-received')
      return
    ctx.note(case, nontrivial=False, classes=['tilde-only name'])
    return
  if len(forms) != 1:
    ex = sorted(results.items())[:4]
    ctx.fail('C18:order-dependent-normal-form',
             'the same series written with its tags in different orders normalises to %d different names: %r' % (len(forms), ex),
             case, 'canonical')
    return
  N = forms.pop()
  x0 = next(iter(results))
  accepted = all(ok for n, ok in results.values())
  if not accepted and not (len(tags) == 0 and looks_openmetrics(x0)):
    ctx.fail('C18:valid-name-rejected', 'series %r with valid tags %r was rejected by the parser' % (name, tags), case, 'accept-valid')
    return
  NN, ok2 = normalise(b, N)
  if NN != N:
    if tags and not want_tags and looks_openmetrics(name):
      # the only tag is an explicit name tag (which normalisation drops) and the metric name itself is
      # OpenMetrics-shaped: the normal form is a bare OpenMetrics string
      ctx.fail('name-tag-only-on-openmetrics-shaped-name', 'N(%r) = %r but N(N) = %r' % (x0, N, NN), case, 'idempotent')
      ctx.note(case, nontrivial=False, classes=['known finding: name-tag-only on openmetrics-shaped name'])
      return
    ctx.fail('C18:not-idempotent', 'N(%r) = %r but N(N) = %r' % (x0, N, NN), case, 'idempotent')
    return
  plain_carbon = not (len(tags) == 0 and looks_openmetrics(x0))
  if plain_carbon:
    sp = split_normal_form(N)
    if sp is None or sp[0] != want_name or sp[1] != want_tags:
      ctx.fail('C18:normal-form-alters-series', 'series (%r, %r) normalises to %r which reads back as %r' % (
        name, sorted(want_tags.items()), N, sp), case, 'content-preserved')
      return
  # OpenMetrics renderings
  escapes = False
  om_agree = 0
  if tags and '{' not in name and not name.endswith('"') and plain_carbon:
    for perm in perms:
      om = name + '{' + ','.join('%s="%s"' % (k, om_escape(v)) for k, v in perm) + '}'
      if any(c in v for _, v in perm for c in '"\\'):
        escapes = True
      n_om, ok_om = normalise(b, om)
      if ok_om:
        if n_om != N:
          ctx.fail('C18:syntax-dependent-normal-form', 'carbon syntax gives %r, OpenMetrics rendering %r gives %r' % (N, om, n_om),
                   case, 'syntax-independent')
          return
        om_agree += 1
  # what the pipeline stores / relays
  stored, relayed = through_processors(b, x0)
  if stored != [N] or relayed != [N]:
    ctx.fail('C18:pipeline-uses-other-name', '%r normalises to %r but was stored as %r and relayed as %r' % (x0, N, stored, relayed),
             case, 'pipeline')
    return
  reserved = any(c in v for _, v in tags for c in '!^=~{}"\\,')
  classes = ['valid', 'tags=%d' % len(tags)]
  if om_agree:
    classes.append('openmetrics rendering accepted')
  if escapes and om_agree:
    classes.append('openmetrics escapes')
  if involved_dispatch:
    classes.append('carbon string shaped like openmetrics')
  if any(k == 'name' for k, _ in tags):
    classes.append('explicit name tag')
  ctx.note(case, nontrivial=(len(tags) >= 2 and reserved) or (escapes and om_agree > 0), classes=classes)


def execute_long_lived(ctx, case):
  """One long-lived write processor and relay processor (as in a daemon that has been up for a while): a flood of
  distinct rule-violating names, some valid ones, a minute or two of (virtual) time, then the same names again in
  several orders.  Every rejected name is stored and relayed exactly as received, every valid one in its normal form."""
  b = env.bootstrap()
  env.reset(CACHE_WRITE_STRATEGY='sorted', TAG_RELAY_NORMALIZED=True)
  clock = [1600000000.0]

  class T(object):
    @staticmethod
    def time():
      return clock[0]
  saved = b.cache.time
  b.cache.time = T
  try:
    proc = env.need(b.cache, 'CacheFeedingProcessor')()
    mgr = FakeManager()
    b.state.client_manager = mgr
    rp = env.need(b.client, 'RelayProcessor')()
    n = case['n']
    bad = ['flood%d;=v%d' % (i, i) if i % 3 else 'flood%d;k!=%d' % (i, i) for i in range(n)]
    good = [('ok%d;b=2;a=%d' % (i, i), 'ok%d;a=%d;b=2' % (i, i)) for i in range(5)]
    rounds = [bad + [g[0] for g in good], bad[:10] + bad[n // 2:n // 2 + 10], list(reversed(bad)), bad[:10]]
    for ri, names in enumerate(rounds):
      clock[0] += [0, 61, 5, 120][ri]
      for x in names:
        cache = b.cache.MetricCache()
        before = set(dict.keys(cache))
        nsent = len(mgr.sent)
        try:
          proc.process(x, (clock[0], 1.0))
          rp.process(x, (clock[0], 1.0))
        except Exception as e:  # noqa
          ctx.fail('C18:processor-raised:%s' % type(e).__name__, 'long-lived processors, round %d: %r raised %r' % (ri, x, e), case)
          return
        want = dict(good).get(x, x)
        relayed = [m for m, _ in mgr.sent[nsent:]]
        if want not in dict.keys(cache) or relayed != [want] or (set(dict.keys(cache)) - before) - set([want]):
          ctx.fail('C18:rejected-name-altered' if x in bad else 'C18:pipeline-uses-other-name',
                   'long-lived processors, round %d (%d rejected names seen so far): %r was stored under %r and relayed as %r, '
                   'expected %r' % (ri, n, x, sorted(set(dict.keys(cache)) - before) or 'an existing key', relayed, want), case, 'as-received')
          return
      # drain so that "stored under" can be observed afresh in the next round
      b.cache.MetricCache().clear()
      b.cache.MetricCache().size = 0
    ctx.note(case, nontrivial=True, classes=['long-lived processors, %d rejected names' % n], key=['long-lived', n])
  finally:
    b.cache.time = saved


def run(ctx):
  if (ctx.shard or 0) == 0:
    for n in (40, 1203):
      execute(ctx, {'kind': 'long-lived', 'n': n})
  run_given(ctx, valid_series(), execute, ctx.scale(3000, 12000), salt=1)
  run_given(ctx, invalid_series(), execute, ctx.scale(600, 2500), salt=2)
  run_given(ctx, invalid_openmetrics(), execute, ctx.scale(500, 2500), salt=3)
