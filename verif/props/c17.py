"""C17 - every write strategy drains consistently, completely and without starvation."""
from hypothesis import strategies as st

from .. import cachesim, env, lin
from ..hyp import run_given
from . import c02

LEVEL = 'exploration'
RULE = ('Store/drain histories over <=5 metrics x <=4 timestamps (old and fresh relative to a virtual clock) run by a '
        'storing and a draining thread under generated line-granular schedules, plus long single-thread histories; '
        'six strategies x MIN_TIMESTAMP_LAG in {0,5} x bounded/unbounded cache; RandomStrategy choice = generated '
        'indices. After the threads stop the clock passes the lag and the harness drains to exhaustion. Oracle = '
        'linearizability against a strategy-specific sequential spec: no operation raises; a drain returns (None, []) '
        'only if no eligible metric exists and never a metric without datapoints; sorted/timesorted/naive: within a '
        'pass no metric is drained twice while a metric of the pass snapshot is still undrained; max/bucketmax: the '
        'drained metric holds the maximum count at its linearization point; timesorted+lag: oldest datapoint older '
        'than the lag at drain time; final exhaustion ends with (None, []) and an empty cache with every datapoint '
        'accounted for. Non-trivial = a store overlapping a drain in time, or a metric re-stored during a pass, or '
        '(lag) a metric skipped and drained later; distinct by hash of the case.')
ASSUMPTIONS = c02.ASSUMPTIONS[:2] + [
  'pass = begins at the first drain after the previous pass finished; its snapshot is the set of eligible metrics present then (the documented "loop of the cache")',
  'ties between metrics with equal counts may be broken either way (max, bucketmax)',
]
SIGNATURES = ()

T0 = cachesim.T0
LAG = 5


def ts_choices(lag):
  if lag:
    return [T0 - 100, T0 - 20, T0 - 7, T0 - 3, T0, T0 + 2]
  return [1, 2, 3, 4]


@st.composite
def cases(draw, strategy, concurrent):
  lag = draw(st.sampled_from([0, LAG])) if strategy == 'timesorted' else draw(st.sampled_from([0, 0, LAG]))
  tss = ts_choices(lag)
  nm = draw(st.integers(1, 5))
  nts = draw(st.integers(1, 4))
  counter = [-1]       # values are unique ids 0, 1, 2, ...: the first one is the falsy 0

  def store():
    counter[0] += 1
    return ['store', draw(st.sampled_from(c02.METRICS[:nm])), draw(st.sampled_from(tss if lag else tss[:nts])), counter[0]]

  def wait():
    # (a slow disk or a huge cache: a single pass may take minutes)
    return ['wait', draw(st.sampled_from([0.5, 1, 3, 6, 6, 120, 400]))]
  if concurrent:
    recv = []
    for _ in range(draw(st.integers(2, 10))):
      recv.append(store() if draw(st.integers(0, 6)) else wait())
    for _ in range(draw(st.sampled_from([0, 0, 1, 2]))):
      # graphite-web asks for a series (possibly one that is not cached): a read, the drains are unaffected by it
      recv.insert(draw(st.integers(0, len(recv))), ['query', draw(st.sampled_from(c02.METRICS[:nm + 1]))])
    if draw(st.integers(0, 4)) == 0:
      # another component of the same daemon (a send queue, with RELAY_CACHE_METRICS) announces "full"
      recv.insert(draw(st.integers(0, len(recv))), ['full_elsewhere'])
    writer = []
    for _ in range(draw(st.integers(1, 8))):
      writer.append(['drain'] if draw(st.integers(0, 5)) else wait())
    programs = [recv, writer]
    switches = draw(c02.switch_lists())
  else:
    ops = []
    for _ in range(draw(st.integers(3, 50))):
      k = draw(st.integers(0, 9))
      ops.append(['drain'] if k < 3 else (wait() if k == 3 and (lag or draw(st.booleans())) else store()))
    for _ in range(draw(st.sampled_from([0, 0, 1, 2]))):
      ops.insert(draw(st.integers(0, len(ops))), ['query', draw(st.sampled_from(c02.METRICS[:nm + 1]))])
    if draw(st.integers(0, 4)) == 0:
      ops.insert(draw(st.integers(0, len(ops))), ['full_elsewhere'])
    if draw(st.integers(0, 3)) == 0:
      # a slow pass: the first drain of a pass, minutes of (virtual) time, new datapoints for the metric just
      # drained, then the rest of the pass
      ops = [store() for _ in range(draw(st.integers(4, 9)))] + [['drain'], ['wait', draw(st.sampled_from([120, 301, 400, 4000]))]]
      ops += [store() for _ in range(draw(st.integers(1, 4)))] + [['drain'] for _ in range(draw(st.integers(1, 4)))]
    programs = [ops, []]
    switches = []
  case = {'strategy': strategy, 'programs': programs, 'switches': switches, 'lag': lag,
          'choices': draw(st.lists(st.integers(0, 4), max_size=12)), 'first': draw(st.integers(0, 1)) if concurrent else 0}
  if draw(st.integers(0, 3)) == 0 or (lag and draw(st.booleans())):
    case['max_cache_size'] = draw(st.sampled_from([2, 3, 5]))
    case['flow'] = draw(st.booleans())
  return case


def eligible(cache_state, strategy, lag, now):
  out = set()
  for m, items in cache_state:
    if not items:
      continue
    if strategy == 'timesorted' and lag:
      if now - min(t for t, _ in items) > lag:
        out.add(m)
    else:
      out.add(m)
  return out


def make_spec(strategy, lag, hard):
  base = cachesim.make_spec(hard_max=hard, check_overflow=False, allow_none_nonempty=True)
  fair = strategy in ('sorted', 'timesorted', 'naive')
  maxy = strategy in ('max', 'bucketmax')

  def spec(state, sub):
    fstate, remaining, done = state
    if sub['op'] != 'drain' or sub.get('exc') is not None:
      ns = base(fstate, sub)
      return None if ns is None else (ns, remaining, done)
    m, pts = sub['result']
    now = sub['ref'].time
    elig = eligible(fstate, strategy, lag, now)
    if m is None:
      if elig or pts:
        return None        # something drainable was there: (None, []) is not allowed
      return state
    if not pts:
      return None          # a metric without datapoints
    d = dict(fstate)
    if m not in d:
      return None
    if strategy == 'timesorted' and lag and m not in elig:
      return None          # lag not honoured
    if maxy:
      best = max(len(items) for items in d.values())
      if len(d[m]) != best:
        return None
    if fair:
      if not remaining:
        remaining = frozenset(elig)
        done = frozenset()
      if m in done:
        return None        # drained a second time while the pass is unfinished
      done = done | frozenset([m])
      remaining = remaining - frozenset([m])
    ns = base(fstate, sub)
    if ns is None:
      return None
    return (ns, remaining, done)
  return spec


def execute(ctx, case):
  strategy = case['strategy']
  lag = case.get('lag', 0)
  hard = None
  if case.get('max_cache_size') is not None:
    hard = cachesim.derived_limits(case['max_cache_size'], case.get('flow'))[1]
  exhaust = {}

  def post(run, sched, Op):
    # completeness: no new input, clock passes the lag, drain until (None, [])
    cache = run.cache
    # the clock passes the lag for every cached datapoint (future-dated ones included)
    newest = max([t for d in dict.values(cache) for t in d] + [sched.now]) if lag else sched.now
    sched.now = max(sched.now, newest) + lag + 1
    budget = len(cache) * 2 + 6
    ops = []
    for _ in range(budget):
      op = Op(1, 'drain', [])
      op.time = sched.now
      op.inv = sched.tick()
      try:
        m, pts = cache.drain_metric()
        op.result = [m, [list(p) for p in pts]]
      except Exception as e:  # noqa
        op.exc = e
      op.resp = sched.tick()
      ops.append(op)
      if op.exc is not None or op.result[0] is None:
        break
    run.history[1].extend(ops)
    exhaust['ops'] = ops

  bad = []
  b = env.bootstrap()
  run = cachesim.run_case(case, on_point=c02.size_invariant(ctx, case, bad), post=post,
                          extra_ops={'full_elsewhere': lambda run_, sched_, spec_: b.events.cacheFull()})
  if run.aborted:
    ctx.fail('C17:%s' % run.aborted, 'scheduled run aborted: %s' % run.aborted, case)
    return
  for h in run.history:
    for op in h:
      if op.exc is not None:
        ctx.fail('C17:%s-raised:%s' % (op.op, type(op.exc).__name__),
                 '%s%r raised %r under strategy %s' % (op.op, op.args, op.exc, strategy), case, 'never-fails')
        return
  ops = exhaust.get('ops', [])
  if not ops or ops[-1].result[0] is not None or run.final:
    ctx.fail('C17:incomplete-drain',
             'strategy %s lag %s: with no new input and the clock past the lag, %d drains did not empty the cache '
             '(left: %r, last results %r)' % (strategy, lag, len(ops), run.final, [o.result for o in ops[-3:]]),
             case, 'completeness')
    return
  groups = cachesim.groups_from_history(run.history)
  ok, _ = lin.linearizable(groups, make_spec(strategy, lag, hard), (frozenset(), frozenset(), frozenset()),
                           lambda s: not s[0])
  if not ok:
    # distinguish plain data errors (C02's business too) from strategy-contract violations
    ok2, _ = lin.linearizable(groups, lambda st_, sub: _plain(st_, sub, hard), frozenset(), lambda s: not s)
    sig = 'C17:strategy-contract:%s' % strategy if ok2 else 'C17:not-linearizable'
    ctx.fail(sig, 'strategy %s lag %s: no sequential order of the operations satisfies the strategy contract '
             '(empty batch / unfair pass / not the maximum / lag ignored / early None). history=%r' % (
               strategy, lag, [o.brief() + [o.time] for h in run.history for o in h]), case, 'strategy-contract')
    return
  # classification
  drains = [o for o in run.history[1] + run.history[0] if o.op == 'drain']
  stores = [o for o in run.history[0] if o.op == 'store']
  overlap = any(s.inv < d.resp and d.inv < s.resp for s in stores for d in drains)
  restored = False
  for d in drains:
    if d.result[0] is not None and any(s.args[0] == d.result[0] and s.inv > d.resp for s in stores):
      restored = True
  skipped = False
  if lag:
    nones = [d for d in drains if d.result[0] is None and d not in ops]
    skipped = bool(nones) and any(d.result[0] is not None and d.inv > nones[0].resp for d in drains)
  classes = [strategy, 'lag=%s' % lag, 'bounded' if hard is not None else 'unbounded',
             'concurrent' if case['programs'][1] else 'sequential']
  if any(o[0] == 'full_elsewhere' for pr in case['programs'] for o in pr):
    classes.append('"cache full" announced by another component')
  if overlap:
    classes.append('store overlaps drain')
  if restored:
    classes.append('metric re-stored after a drain')
  if skipped:
    classes.append('lag: skipped then drained later')
  ctx.note(case, nontrivial=(overlap and run.preemptions_in_op > 0) or restored or skipped, classes=classes)


def _plain(state, sub, hard):
  return cachesim.make_spec(hard_max=hard, allow_none_nonempty=True)(state, sub)


def run(ctx):
  if (ctx.shard or 0) == 0:
    c02.enumerate_single(ctx, execute, extra={'lag': 0})
    c02.enumerate_prefilled(ctx, execute, extra={'lag': 0})
  n_c, n_s = (230, 100) if ctx.quick else (900, 400)
  for i, s in enumerate(cachesim.STRATEGIES):
    run_given(ctx, cases(s, True), execute, n_c, salt=50 + i)
    run_given(ctx, cases(s, False), execute, n_s, salt=60 + i)
  if not ctx.quick:
    total = 0
    jobs = [(s, wi, lag) for s in cachesim.STRATEGIES for wi in range(len(c02.WORKLOADS)) for lag in (0,)]
    for ji, (s, wi, lag) in enumerate(jobs):
      if ji % ctx.nshards != (ctx.shard or 0):
        continue
      progs = [[o for o in c02.WORKLOADS[wi][0] if o[0] == 'store'], c02.WORKLOADS[wi][1]]
      base = {'strategy': s, 'programs': progs, 'switches': [], 'choices': [], 'first': 0, 'lag': lag}
      n = c02.unpreempted_steps(base) + 30
      for i in range(1, n):
        execute(ctx, dict(base, switches=[[i, 1]]))
        total += 1
      for i in range(1, n, 2):
        for j in range(i + 1, n, 2):
          execute(ctx, dict(base, switches=[[i, 1], [j, 1]]))
          total += 1
    ctx.extra['bounded_preemption_runs'] = total
