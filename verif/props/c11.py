"""C11 - malformed input is skipped without harming the connection or its neighbours."""
import os
import pickle
import struct

from hypothesis import strategies as st

from .. import env, gen, pkl, wire
from ..hyp import run_given
from . import c01

LEVEL = 'exploration'
RULE = ('Streams built from items: well-formed lines/frames (as C01) interleaved with malformed ones (wrong field '
        'counts, unparsable numbers, non-finite timestamps, invalid UTF-8, garbage/truncated pickles, pickles of the '
        'wrong shape, entries of wrong arity/type inside otherwise good frames, global-referencing and random opcode '
        'programs), byte-level mutations of valid items (oracle then only demands the untouched neighbours), over-long '
        'lines/frames and length-prefix corruption (after which nothing more is demanded), under generated '
        'segmentations, whole and byte-by-byte; differential oracle = same stream with the malformed items removed; '
        'non-trivial = a malformed item with a well-formed item after it on the same connection/datagram/frame; '
        'distinct by hash of (listener, items, cuts).')
ASSUMPTIONS = [
  'malformed follows the property text: non-finite timestamps are malformed, NaN values are admission-filtered (C12), +-inf values are well-formed',
  'items whose acceptance is not fixed by the documentation (bytes names, numeric strings, bools, negative timestamps) are not generated',
  'Twisted stops delivering data after loseConnection(); the harness models that by not feeding further segments',
  'protobuf listener not covered (google.protobuf absent)',
]
SIGNATURES = ()

BAD_NUM = ['abc', '1.2.3', '--1', '1e', 'NaNx', '12abc', '.', '-', '+', 'e5', '1,5', '0x1F', '1e+', '$5', '1/2']
NONFINITE_TS = ['inf', '-inf', 'nan', '1e400', 'Infinity', '-1e999', 'NaN', '+inf']
BAD_UTF8 = [b'\xff', b'\x80', b'\xc3', b'\xe2\x82', b'\xf0\x9f\x98', b'\xc0\xaf', b'\xed\xa0\x80', b'\xfe\xfe',
            b'\xf8\x88\x80\x80\x80', b'a\xc3(']


def h(b):
  return b.hex()


@st.composite
def good_line(draw):
  name = draw(gen.metric_names(max_tokens=4))
  v = draw(gen.value_texts())
  t = draw(gen.timestamp_texts())
  return ('%s %s %s' % (name, v, t)).encode('utf-8'), [[name, wire.dec_number(t), wire.dec_number(v)]]


@st.composite
def bad_line(draw):
  kind = draw(st.integers(0, 8))
  name = draw(gen.metric_names(max_tokens=3)).encode('utf-8')
  if kind == 8:    # long (but legal length) malformed line: exercises the log truncation branch
    pad = draw(st.sampled_from([b'x', b'\xc3\xa9', b'ab.'])) * draw(st.integers(130, 900))
    tail = draw(st.sampled_from([b' 1', b' 1 2 3', b' abc 5', b' 1 nan', b'\xff 1 2']))
    return name + pad + tail, 'long-malformed-line'
  if kind == 0:    # wrong field count
    n = draw(st.sampled_from([0, 1, 2, 4, 5]))
    fields = [name, b'1', b'2', b'3', b'4'][:n]
    return b' '.join(fields), 'field-count-%d' % n
  if kind == 1:
    return name + b' ' + draw(st.sampled_from(BAD_NUM)).encode() + b' 1500000000', 'bad-value'
  if kind == 2:
    return name + b' 1.5 ' + draw(st.sampled_from(BAD_NUM)).encode(), 'bad-timestamp'
  if kind == 3:
    v = draw(st.sampled_from(['1', '2.5', 'inf', 'nan']))
    return name + b' ' + v.encode() + b' ' + draw(st.sampled_from(NONFINITE_TS)).encode(), 'nonfinite-timestamp'
  if kind == 4:
    bad = draw(st.sampled_from(BAD_UTF8))
    where = draw(st.integers(0, 2))
    parts = [name, b'1', b'1500000000']
    parts[where] = parts[where] + bad if draw(st.booleans()) else bad + parts[where]
    return b' '.join(parts), 'invalid-utf8'
  if kind == 5:
    return draw(st.sampled_from([b'', b' ', b'\t', b'   \r'])), 'empty-line'
  if kind == 6:
    return draw(st.binary(min_size=1, max_size=30)).replace(b'\n', b'?').replace(b'\r', b'?') \
      .replace(b'\x0b', b'?').replace(b'\x0c', b'?').replace(b'\x1c', b'?').replace(b'\x1d', b'?') \
      .replace(b'\x1e', b'?').replace(b'\x85', b'?') + b' x y z', 'binary-junk-4-fields'
  return name + b' ' + name, 'two-words'


def _no_eol(b):
  for ch in (b'\n', b'\r', b'\x0b', b'\x0c', b'\x1c', b'\x1d', b'\x1e'):
    b = b.replace(ch, b'?')
  return b


@st.composite
def mutated(draw, data):
  """Byte-level mutation of a valid item (no line terminators are introduced)."""
  data = bytearray(data)
  for _ in range(draw(st.integers(1, 3))):
    op = draw(st.integers(0, 4))
    pos = draw(st.integers(0, max(0, len(data) - 1)))
    if op == 0 and data:
      data[pos] ^= 1 << draw(st.integers(0, 7))
    elif op == 1:
      data[pos:pos] = draw(st.binary(min_size=1, max_size=4))
    elif op == 2 and data:
      del data[pos:pos + draw(st.integers(1, 4))]
    elif op == 3 and data:
      data[pos:pos] = data[pos:pos + draw(st.integers(1, 8))]
    elif op == 4:
      data = data[:pos]
  return bytes(data)


@st.composite
def line_items(draw, udp=False):
  items = []
  n = draw(st.integers(1, 10))
  for _ in range(n):
    k = draw(st.integers(0, 19))
    if k < 9:
      data, exp = draw(good_line())
      items.append({'kind': 'good', 'hex': h(data), 'expected': exp, 'cls': 'good'})
    elif k < 16:
      data, cls = draw(bad_line())
      items.append({'kind': 'bad', 'hex': h(data), 'expected': [], 'cls': cls})
    elif k < 19 or udp:
      data, _ = draw(good_line())
      data = _no_eol(draw(mutated(data)))
      # \x85 / U+2028 / U+2029 only matter after decoding: keep them out of mutated lines too
      if b'\xc2\x85' in data or b'\xe2\x80\xa8' in data or b'\xe2\x80\xa9' in data:
        data = data.replace(b'\xc2\x85', b'?').replace(b'\xe2\x80\xa8', b'?').replace(b'\xe2\x80\xa9', b'?')
      items.append({'kind': 'fuzzy', 'hex': h(data), 'expected': [], 'cls': 'mutated'})
    else:
      data = b'x' * draw(st.integers(16385, 16500)) + b' 1 2'
      items.append({'kind': 'terminal', 'hex': h(data), 'expected': [], 'cls': 'overlong-line'})
  return items


def with_repeats(draw, items):
  """The same item (well-formed or malformed) sent again later on the connection: a client that retries, a
  broken client that keeps sending the same bad line."""
  items = list(items)
  for _ in range(draw(st.integers(0, 3))):
    i = draw(st.integers(0, len(items) - 1))
    if items[i]['kind'] not in ('good', 'bad'):
      continue
    j = draw(st.sampled_from([i + 1, i + 1, draw(st.integers(i + 1, len(items)))]))
    items.insert(j, dict(items[i], expected=list(items[i]['expected'])))
  return items


@st.composite
def line_cases(draw):
  items = with_repeats(draw, draw(line_items()))
  total = sum(len(i['hex']) // 2 + 1 for i in items)
  cuts = draw(st.lists(st.integers(1, max(1, total - 1)), max_size=8))
  return {'listener': 'line', 'items': items, 'cuts': sorted(set(cuts)), 'lists': draw(st.integers(0, 3)) == 0,
          'log_conn': draw(st.sampled_from([None, None, [False, False], [False, True], [True, True]]))}


@st.composite
def udp_cases(draw):
  dgs = []
  for _ in range(draw(st.integers(1, 3))):
    items = with_repeats(draw, draw(line_items(udp=True)))
    dgs.append({'items': items, 'final_eol': draw(st.booleans())})
  return {'listener': 'udp', 'datagrams': dgs, 'lists': draw(st.integers(0, 3)) == 0,
          'log_conn': draw(st.sampled_from([None, None, [False, False], [False, True], [True, True]]))}


# ---- pickle ---------------------------------------------------------------
def good_entry_objs():
  return st.tuples(gen.metric_names(max_tokens=3), st.tuples(c01.ts_objs(), c01.num_objs()))


class _Opaque(object):
  pass


@st.composite
def bad_entry(draw):
  """(python object or assembler bytes, class) for a malformed entry inside a frame."""
  name = draw(gen.metric_names(max_tokens=2))
  kind = draw(st.integers(0, 9))
  if kind == 0:
    return draw(st.sampled_from([(name,), (name, 1, 2), (), (name, (1,)), (name, (1, 2, 3)), [name], 7, None])), 'arity'
  if kind == 1:
    return (name, draw(st.sampled_from([5, None, 'xy', 1.5]))), 'datapoint-not-a-pair'
  if kind == 2:
    return (draw(st.sampled_from([5, None, 1.5, (1, 2), ['a']])), (1500000000, 1.0)), 'name-not-a-string'
  if kind == 3:
    return (name, (1500000000, draw(st.sampled_from([None, [1], (1,), {}, 'abc', '', '1.2.3'])))), 'value-not-a-number'
  if kind == 4:
    return (name, (draw(st.sampled_from([None, [1], 'abc', ''])), 1.0)), 'timestamp-not-a-number'
  if kind == 5:
    return (name, (1500000000, draw(st.sampled_from([10**400, -10**310, 2**1024])))), 'value-too-large-for-float'
  if kind == 6:
    return (name, (draw(st.sampled_from([10**400, 2**1024])), 1.0)), 'timestamp-too-large-for-float'
  if kind == 7:
    return (name, (draw(st.sampled_from([float('inf'), float('-inf'), float('nan')])), 1.0)), 'nonfinite-timestamp'
  if kind == 8:
    return {name: (1, 2)}, 'dict-entry'
  return (name, {'a': 1}), 'datapoint-dict'


def deep_object_ops(depth, kind):
  """pickle opcodes that build a list / tuple / dict nested `depth` levels deep (the pickler itself cannot write
  such a thing, a hostile or broken client can)"""
  if kind == 'list':
    return b']' * depth + b'a' * (depth - 1)
  if kind == 'tuple':
    return b')' + b'\x85' * (depth - 1)
  raise ValueError(kind)


@st.composite
def pickle_frame_item(draw):
  k = draw(st.integers(0, 31))
  if k >= 30:
    # a well-formed list of entries one of which carries a deeply nested object where a name / number belongs
    depth = draw(st.sampled_from([50, 5000, 5000, 40000]))
    deep = deep_object_ops(depth, draw(st.sampled_from(['list', 'tuple'])))
    where = draw(st.sampled_from(['name', 'name', 'value', 'timestamp', 'entry']))
    good1, good2 = draw(good_entry_objs()), draw(good_entry_objs())

    def entry_ops(e):
      return pickle.dumps(e, protocol=2)[2:-1]           # strip PROTO and STOP: pushes the entry on the stack
    if where == 'name':
      bad = deep + b'K\x01K\x02\x86\x86'
    elif where == 'value':
      bad = b'X\x03\x00\x00\x00d.v' + deep + b'K\x02\x86\x86'
    elif where == 'timestamp':
      bad = b'X\x03\x00\x00\x00d.t' + b'K\x01' + deep + b'\x86\x86'
    else:
      bad = deep
    payload = b'\x80\x02](' + entry_ops(good1) + bad + entry_ops(good2) + b'e.'
    exp = [[e[0], float(e[1][0]), float(e[1][1])] for e in (good1, good2)]
    return {'kind': 'good', 'hex': h(pkl.int32_frame(payload)), 'expected': exp,
            'cls': 'good-frame-with-bad-entry:deeply-nested-%s' % where}
  if k < 8:
    # good frame, possibly with malformed entries in between good ones
    entries = []
    exp = []
    cls = 'good'
    for _ in range(draw(st.integers(1, 6))):
      if draw(st.integers(0, 3)) == 0:
        obj, c = draw(bad_entry())
        entries.append(obj)
        cls = 'good-frame-with-bad-entry:' + c
      else:
        e = draw(good_entry_objs())
        entries.append(e)
        exp.append([e[0], float(e[1][0]), float(e[1][1])])
    payload = pickle.dumps(entries, protocol=draw(st.integers(0, 5)))
    return {'kind': 'good', 'hex': h(pkl.int32_frame(payload)), 'expected': exp, 'cls': cls}
  if k < 11:
    obj = draw(st.sampled_from([5, None, 'abc', True, 1.5, {'a': 1}, [[['x', [1, 2]]]], [[]], [None], (), b'bytes',
                                {'type': 'cache-query'}, [1, 2, 3], 'metric 1 2', frozenset([1])]))
    return {'kind': 'bad', 'hex': h(pkl.int32_frame(pickle.dumps(obj, protocol=draw(st.integers(0, 5))))),
            'expected': [], 'cls': 'wrong-shape:%s' % type(obj).__name__}
  if k < 14:
    data = draw(st.binary(min_size=0, max_size=40))
    return {'kind': 'fuzzy', 'hex': h(pkl.int32_frame(data)), 'expected': [], 'cls': 'garbage'}
  if k < 17:
    entries = draw(st.lists(good_entry_objs(), min_size=1, max_size=4))
    payload = pickle.dumps(entries, protocol=draw(st.integers(0, 5)))
    cutat = draw(st.integers(0, len(payload) - 1))
    return {'kind': 'bad', 'hex': h(pkl.int32_frame(payload[:cutat])), 'expected': [], 'cls': 'truncated'}
  if k < 20:
    entries = draw(st.lists(good_entry_objs(), min_size=1, max_size=4))
    payload = draw(mutated(pickle.dumps(entries, protocol=draw(st.integers(0, 5)))))
    return {'kind': 'fuzzy', 'hex': h(pkl.int32_frame(payload)), 'expected': [], 'cls': 'mutated'}
  if k < 23:
    mod, attr = draw(st.sampled_from([('os', 'system'), ('builtins', 'eval'), ('posix', 'system'),
                                      ('subprocess', 'Popen'), ('nosuchmodule_xyz', 'f'), ('os', 'nosuchattr'),
                                      ('carbon.util', 'pickle'), ('', ''), ('builtins', 'getattr')]))
    route = draw(st.integers(0, 3))
    if route == 0:
      body = pkl.g_reduce(pkl.g_global(mod, attr), pkl.p_tuple([pkl.p_str('true')]))
    elif route == 1:
      body = pkl.g_stack_global(mod, attr)
    elif route == 2:
      body = pkl.g_inst(mod, attr, [pkl.p_str('true')])
    else:
      body = pkl.p_list([pkl.p_tuple([pkl.p_str('a'), pkl.p_tuple([pkl.p_int(1), pkl.g_global(mod, attr)])])])
    return {'kind': 'bad', 'hex': h(pkl.int32_frame(pkl.program(body, draw(st.sampled_from([0, 2, 4]))))),
            'expected': [], 'cls': 'global-reference'}
  if k < 27:
    # arbitrary opcode programs: memo abuse, MARK misuse, FRAME, PERSID, huge sizes
    frag = st.sampled_from([
      b'(', b')', b']', b'}', b'.', b'0', b'1', b'2', b'a', b'e', b'l', b't', b's', b'u', b'd', b'N', b'R', b'b', b'o',
      b'\x85', b'\x86', b'\x87', b'\x88', b'\x89', b'\x81', b'\x92', b'\x93', b'\x94', b'\x90', b'\x91', b'\x8f',
      b'K\x01', b'K\xff', b'M\xff\xff', b'J\xff\xff\xff\x7f', b'I1\n', b'I01\n', b'I00\n', b'Iabc\n', b'L1L\n', b'F1.5\n', b'Fx\n',
      b'S\'a\'\n', b'S"a\n', b'Va\n', b'U\x01a', b'U\x05a', b'T\xff\xff\xff\x7fa', b'X\x01\x00\x00\x00a', b'X\xff\xff\xff\xffa',
      b'\x8c\x01a', b'\x8d\xff\xff\xff\xff\xff\xff\xff\x7f', b'\x8e\xff\xff\xff\xff\xff\xff\xff\x7f',
      b'\x8a\x01\x01', b'\x8a\xff', b'\x8b\xff\xff\xff\x7f', b'\x8b\x00\x00\x00\x80',
      b'q\x00', b'q\xff', b'h\x00', b'h\x07', b'j\xff\xff\xff\x7f', b'r\xff\xff\xff\x7f', b'r\x88\x88\x88\x88', b'p1\n', b'g1\n', b'g999\n', b'px\n',
      b'\x80\x02', b'\x80\x05', b'\x80\xff', b'\x95\x00\x00\x00\x00\x00\x00\x00\x00', b'\x95\xff\xff\xff\xff\xff\xff\xff\xff',
      b'\x95\x05\x00\x00\x00\x00\x00\x00\x00', b'Pid\n', b'Q', b'\x82\x01', b'\x83\x01\x00', b'\x84\x01\x00\x00\x00', b'\x84\x00\x00\x00\x00',
      b'cos\nsystem\n', b'c__builtin__\nobject\n', b'ccopy_reg\n_reconstructor\n', b'ios\nsystem\n',
      b'G\x7f\xf0\x00\x00\x00\x00\x00\x00', b'B\xff\xff\xff\xff', b'C\x02ab', b'\x96\x02\x00\x00\x00\x00\x00\x00\x00ab',
      b'\x97', b'\x98', b'\xff', b'\x00',
    ])
    body = b''.join(draw(st.lists(frag, min_size=1, max_size=12)))
    return {'kind': 'fuzzy', 'hex': h(pkl.int32_frame(body)), 'expected': [], 'cls': 'opcode-program'}
  if k < 28:
    n = draw(st.sampled_from([2**20 + 1, 2**24, 2**31 - 1, 2**31, 2**32 - 1]))
    return {'kind': 'terminal', 'hex': h(struct.pack('!I', n) + b'xx'), 'expected': [], 'cls': 'overlong-frame'}
  if k < 29:
    # corrupted length prefix: everything after it is out of sync
    entries = draw(st.lists(good_entry_objs(), min_size=1, max_size=3))
    payload = pickle.dumps(entries, protocol=2)
    delta = draw(st.sampled_from([-3, -1, 1, 2, 7]))
    return {'kind': 'desync', 'hex': h(struct.pack('!I', max(0, len(payload) + delta)) + payload), 'expected': [],
            'cls': 'length-prefix-off'}
  return {'kind': 'bad', 'hex': h(pkl.int32_frame(b'')), 'expected': [], 'cls': 'empty-frame'}


@st.composite
def pickle_cases(draw):
  items = with_repeats(draw, draw(st.lists(pickle_frame_item(), min_size=1, max_size=7)))
  total = sum(len(i['hex']) // 2 for i in items)
  cuts = draw(st.lists(st.integers(1, max(1, total - 1)), max_size=8))
  return {'listener': 'pickle', 'items': items, 'cuts': sorted(set(cuts)), 'lists': draw(st.integers(0, 3)) == 0,
          'log_conn': draw(st.sampled_from([None, None, [False, False], [False, True], [True, True]]))}


# ------------------------------------------------------------------ oracle
def is_subsequence(small, big):
  it = iter(big)
  return all(any(_same(x, y) for y in it) for x in small)


def _same(exp, got):
  return (type(got[0]) is str and got[0] == exp[0] and wire.same_double(got[1][0], exp[1]) and
          wire.same_double(got[1][1], exp[2]))


def judge(ctx, case, items, got, lst, label, escaped_sigprefix):
  kind = case['listener']
  if lst.escaped:
    e = lst.escaped[0]
    import traceback
    tb = traceback.extract_tb(e.__traceback__)
    inner = [f for f in tb if '/carbon/' in f.filename]
    where = inner[-1].name if inner else tb[-1].name
    ctx.fail('C11:%s-escaped:%s:%s' % (kind, type(e).__name__, where),
             '%s [%s]: %s(%s) escaped the protocol handler (in %s)' % (kind, label, type(e).__name__, str(e)[:120], where),
             case, 'no-exception')
    return False
  first_terminal = next((i for i, it in enumerate(items) if it['kind'] in ('terminal', 'desync')), None)
  before = items if first_terminal is None else items[:first_terminal]
  if first_terminal is None and lst.transport.disconnecting:
    ctx.fail('C11:%s-connection-dropped' % kind,
             '%s [%s]: connection closed although no item exceeded the maximum length' % (kind, label), case, 'no-disconnect')
    return False
  exp = [e for it in before for e in it['expected']]
  fuzzy = any(it['kind'] == 'fuzzy' for it in before)
  if not fuzzy:
    head = got[:len(exp)]
    ok = len(head) == len(exp) and all(_same(e, g) for e, g in zip(exp, head))
    if ok and first_terminal is None and len(got) != len(exp):
      ok = False
    if not ok:
      ctx.fail('C11:%s-neighbour-affected' % kind,
               '%s [%s]: delivered %r, expected exactly the well-formed items %r' % (kind, label, got[:8], exp[:8]),
               case, 'differential')
      return False
  else:
    if not is_subsequence(exp, got):
      ctx.fail('C11:%s-neighbour-affected' % kind,
               '%s [%s]: well-formed items %r are not all delivered in order; got %r' % (kind, label, exp[:8], got[:8]),
               case, 'differential')
      return False
  # an over-long item MAY close the connection; if the listener chose to keep it open, the over-long item is a
  # malformed item like any other: what follows it has to arrive as if it were absent
  if (first_terminal is not None and not lst.transport.disconnecting and kind != 'udp' and
          all(it['kind'] in ('good', 'bad', 'terminal') for it in items)):
    exp_all = [e for it in items for e in it['expected']]
    ok = len(got) == len(exp_all) and all(_same(e, g) for e, g in zip(exp_all, got))
    if not ok:
      ctx.fail('C11:%s-neighbour-affected' % kind,
               '%s [%s]: an over-long item did not close the connection, yet the well-formed items after it did not all '
               'arrive: delivered %d datapoints, %d were sent around it' % (kind, label, len(got), len(exp_all)), case, 'differential')
      return False
  return True


def build_stream(case):
  kind = case['listener']
  if kind == 'line':
    return b''.join(bytes.fromhex(i['hex']) + b'\n' for i in case['items'])
  return b''.join(bytes.fromhex(i['hex']) for i in case['items'])


def reset_for(case):
  """Default settings, or - case['lists'] - USE_WHITELIST with a whitelist that admits every name and a blacklist
  that matches none, loaded from files the way the daemon loads them: the same datapoints are expected."""
  b = env.bootstrap()
  extra = {}
  if case.get('log_conn') is not None:
    # connection logging switched off / on (documented options): error paths format the peer's name either way
    extra['LOG_LISTENER_CONN_SUCCESS'], extra['LOG_LISTENER_CONN_LOST'] = case['log_conn']
  if case.get('pickle_max_length'):
    extra['PICKLE_RECEIVER_MAX_LENGTH'] = case['pickle_max_length']     # carbon.conf: the configured maximum frame length
  if not case.get('lists'):
    env.reset(**extra)
    return b
  import os
  env.reset(USE_WHITELIST=True, **extra)
  for lst, fname, text in ((b.regexlist.WhiteList, 'whitelist.conf', '# admit everything\n\n.*\n'),
                           (b.regexlist.BlackList, 'blacklist.conf', '^no-such-metric-ever$\n')):
    path = os.path.join(b.conf_dir, fname)
    with open(path, 'w') as f:
      f.write(text)
    os.utime(path, (1500000000, 1500000000))
    lst.list_file = path
    lst.read_list()
    if len(lst.regex_list) != 1:
      raise HarnessError('list file %s not loaded' % fname)
  return b


def run_tcp(ctx, case, cuts, label, neighbour=False):
  b = reset_for(case)
  rec = env.Recorder(b.events.metricReceived)
  lst = wire.Listener(case['listener'])
  if not neighbour:
    lst.feed(build_stream(case), cuts)
    got = list(rec.items)
  else:
    # another connection of the same listener sends its own well-formed datapoints in between this connection's
    # segments (and an earlier one ended mid-item): it gets them through whatever this connection receives
    kind = case['listener']
    prev = wire.Listener(kind)
    prev.feed(b'previous.partial 1 15' if kind == 'line' else struct.pack('!I', 100) + b'\x80\x02')
    prev.close()
    nb = wire.Listener(kind)
    segs_a = wire.segments(build_stream(case), cuts)
    segs_b = c01.neighbour_stream(kind)
    for i in range(max(len(segs_a), len(segs_b))):
      if i < len(segs_a) and not lst.escaped and not lst.transport.disconnecting:
        lst.feed(segs_a[i])
      if i < len(segs_b) and not nb.escaped and not nb.transport.disconnecting:
        nb.feed(segs_b[i])
    allgot = list(rec.items)
    is_nb = lambda g: isinstance(g[0], str) and g[0].startswith('neighbour.')   # noqa
    got = [g for g in allgot if not is_nb(g)]
    theirs = []
    for g in allgot:
      if is_nb(g):
        try:
          theirs.append((g[0], float(g[1][0]), float(g[1][1])))
        except Exception:  # noqa
          theirs.append(g)
    if nb.escaped or nb.transport.disconnecting or theirs != c01.NEIGHBOUR:
      ctx.fail('C11:%s-other-connection-affected' % kind, '%s [%s]: a neighbouring connection sent %r; delivered %r, escaped %r, '
               'closed %s' % (kind, label, c01.NEIGHBOUR, theirs, nb.escaped[:1], nb.transport.disconnecting), case, 'differential')
      return False
    nb.close()
  ok = judge(ctx, case, case['items'], got, lst, label, '')
  if not lst.escaped:
    lst.close()
  return ok


def nontrivial_items(items):
  seen_bad = False
  for it in items:
    if it['kind'] != 'good' or it['cls'] != 'good':
      if it['cls'].startswith('good-frame-with-bad-entry') and it['expected']:
        return True
      seen_bad = True
    elif seen_bad:
      return True
  return False


def execute_raw(ctx, case):
  """A raw byte stream (found by the coverage-guided campaign, or replayed): only the clauses that need no
  knowledge of which items are malformed - no exception leaves the handler, no disconnect unless a line/frame
  exceeded the maximum length."""
  b = env.bootstrap()
  env.reset()
  kind = case['listener']
  body = bytes.fromhex(case['raw'])
  step = case.get('step', 0)
  lst = wire.Listener(kind)
  if kind == 'udp':
    lst.datagram(body)
  else:
    lst.feed(body, list(range(step, len(body), step)) if step else [])
  items = [{'kind': 'fuzzy', 'hex': case['raw'], 'expected': [], 'cls': 'raw'}]
  if kind == 'line' and any(len(l) > 16384 for l in body.split(b'\n')):
    items[0]['kind'] = 'desync'
  if kind == 'pickle':
    off = 0
    while off + 4 <= len(body):
      (n,) = struct.unpack('!I', body[off:off + 4])
      if n > b.settings.PICKLE_RECEIVER_MAX_LENGTH:
        items[0]['kind'] = 'desync'
        break
      off += 4 + n
  if judge(ctx, case, items, [], lst, 'raw stream', ''):
    ctx.note(case, nontrivial=False, classes=['raw:' + kind])


def atheris_campaign(ctx, which, runs):
  """thorough tier: coverage-guided byte-level search (libFuzzer through atheris) with the oracle inside the
  target; a finding is converted into a replay case and re-judged here through the normal oracle."""
  import subprocess
  import sys
  import tempfile
  import shutil
  out = tempfile.mkdtemp(prefix='verif-fuzz-')
  try:
    try:
      import atheris  # noqa
    except Exception as e:  # noqa
      ctx.extra['atheris'] = {'skipped': 'atheris not importable: %r' % (e,)}
      return []
    cmd = [sys.executable, '-m', 'verif.fuzz.target', which, out, '-runs=%d' % runs, '-seed=%d' % (ctx.shard_seed() % 2**31 or 1),
           '-max_len=600', '-verbosity=0', '-rss_limit_mb=0']
    p = subprocess.run(cmd, stdout=subprocess.PIPE, stderr=subprocess.STDOUT, timeout=1800)
    findings = []
    for name in sorted(os.listdir(out)):
      if name.startswith('finding-') and name.endswith('.bin'):
        findings.append(open(os.path.join(out, name), 'rb').read())
    info = ctx.extra.setdefault('atheris', {'runs': 0, 'findings': 0})
    if p.returncode not in (0, 77):
      info['error'] = 'target exited %s: %s' % (p.returncode, p.stdout.decode('utf-8', 'replace')[-300:])
    else:
      info['runs'] = info.get('runs', 0) + runs
      info['findings'] = info.get('findings', 0) + len(findings)
    return findings
  except subprocess.TimeoutExpired:
    ctx.extra['atheris'] = {'skipped': 'campaign exceeded its time budget (inconclusive)'}
    return []
  finally:
    shutil.rmtree(out, True)


def execute(ctx, case):
  if 'raw' in case:
    return execute_raw(ctx, case)
  kind = case['listener']
  if kind == 'udp':
    b = reset_for(case)
    rec = env.Recorder(b.events.metricReceived)
    lst = wire.Listener('udp')
    allitems = []
    nt = False
    for dg in case['datagrams']:
      data = b'\n'.join(bytes.fromhex(i['hex']) for i in dg['items']) + (b'\n' if dg['final_eol'] else b'')
      lst.datagram(data)
      allitems += dg['items']
      nt = nt or nontrivial_items(dg['items'])
    judge(ctx, case, allitems, list(rec.items), lst, 'datagrams', '')
    ctx.note(case, nontrivial=nt, classes=['udp'] + (['white/blacklist configured'] if case.get('lists') else []) + ['udp:' + i['cls'] for i in allitems if i['cls'] != 'good'])
    return
  data = build_stream(case)
  cuts = [c for c in case['cuts'] if 0 < c < len(data)]
  if not run_tcp(ctx, case, cuts, 'cuts=%s' % cuts):
    return
  ctx.note(case, nontrivial=nontrivial_items(case['items']),
           classes=[kind] + (['white/blacklist configured'] if case.get('lists') else []) + [kind + ':' + i['cls'].split(':')[0] + (':' + i['cls'].split(':')[1] if 'bad-entry' in i['cls'] else '')
                             for i in case['items'] if i['cls'] != 'good'])
  if not run_tcp(ctx, case, [], 'whole'):
    return
  ctx.evaluations += 1
  if not any('neighbour.' in repr(e) or 'previous.' in repr(e) for it in case['items'] for e in it['expected']):
    if not run_tcp(ctx, case, cuts, 'two connections, cuts=%s' % cuts, neighbour=True):
      return
    ctx.evaluations += 1
  if len(data) <= 3000:
    if not run_tcp(ctx, case, list(range(1, len(data))), 'byte-by-byte'):
      return
    ctx.evaluations += 1


def boundary_cases():
  """Items exactly at and one byte over the maximum length: only the latter may close the connection."""
  good1 = {'kind': 'good', 'hex': h(b'edge.before 1 100'), 'expected': [['edge.before', 100.0, 1.0]], 'cls': 'good'}
  good2 = {'kind': 'good', 'hex': h(b'edge.after 2 200'), 'expected': [['edge.after', 200.0, 2.0]], 'cls': 'good'}
  for over in (0, 1):
    name = 'x' * (16384 + over - len(' 1 100'))
    item = ({'kind': 'good', 'hex': h(('%s 1 100' % name).encode()), 'expected': [[name, 100.0, 1.0]], 'cls': 'line-at-max-length'}
            if not over else {'kind': 'terminal', 'hex': h(('%s 1 100' % name).encode()), 'expected': [], 'cls': 'overlong-line'})
    for cuts in ([], [5, 16000, 16396, 16403]):
      yield {'listener': 'line', 'items': [good1, item, good2], 'cuts': cuts, 'lists': False}
  g1 = [('edge.before', (100, 1.0))]
  g2 = [('edge.after', (200, 2.0))]
  # the operator raised the limit above the built-in default: a frame between the two is within the configured maximum
  for limit, size in ((2 ** 21, 2 ** 20 + 100),):
    name = 'z' * (size - 60)
    payload = pickle.dumps([(name, (100, 1.0))], protocol=2)
    yield {'listener': 'pickle', 'pickle_max_length': limit, 'lists': False, 'cuts': [3, 2 ** 20],
           'items': [{'kind': 'good', 'hex': h(pkl.int32_frame(pickle.dumps(g1, protocol=2))), 'expected': [['edge.before', 100.0, 1.0]], 'cls': 'good'},
                     {'kind': 'good', 'hex': h(pkl.int32_frame(payload)), 'expected': [[name, 100.0, 1.0]], 'cls': 'frame-above-default-limit'},
                     {'kind': 'good', 'hex': h(pkl.int32_frame(pickle.dumps(g2, protocol=2))), 'expected': [['edge.after', 200.0, 2.0]], 'cls': 'good'}]}
  for limit in (2048, 70000):
    for over in (0, 1):
      # a protocol-2 pickle of one datapoint whose name pads the payload to exactly limit (+1) bytes
      base = len(pickle.dumps([('', (100, 1.0))], protocol=2))
      name = 'y' * (limit + over - base - (3 if limit - base > 255 else 0))
      payload = pickle.dumps([(name, (100, 1.0))], protocol=2)
      if len(payload) != limit + over:
        name = 'y' * (len(name) + (limit + over - len(payload)))
        payload = pickle.dumps([(name, (100, 1.0))], protocol=2)
      if len(payload) != limit + over:
        continue
      f1, f2 = pickle.dumps(g1, protocol=2), pickle.dumps(g2, protocol=2)
      mid = ({'kind': 'good', 'hex': h(pkl.int32_frame(payload)), 'expected': [[name, 100.0, 1.0]], 'cls': 'frame-at-max-length'}
             if not over else {'kind': 'terminal', 'hex': h(pkl.int32_frame(payload)), 'expected': [], 'cls': 'overlong-frame'})
      yield {'listener': 'pickle', 'pickle_max_length': limit, 'lists': False, 'cuts': [2, 40, limit - 1],
             'items': [{'kind': 'good', 'hex': h(pkl.int32_frame(f1)), 'expected': [['edge.before', 100.0, 1.0]], 'cls': 'good'}, mid,
                       {'kind': 'good', 'hex': h(pkl.int32_frame(f2)), 'expected': [['edge.after', 200.0, 2.0]], 'cls': 'good'}]}


def flood_cases():
  """1100-2100 malformed items on one long-lived connection / socket (a broken client that keeps sending), with
  well-formed ones in between and at the end: the 1000th malformed item is skipped like the first."""
  def g(i):
    return {'kind': 'good', 'hex': h(('flood.ok%d 1 %d' % (i, 100 + i)).encode()), 'expected': [['flood.ok%d' % i, 100.0 + i, 1.0]], 'cls': 'good'}
  bads = [b'one two', b'a b c', b'x 1', b'\xff\xfe 1 2', b'n 1 notanumber', b'']
  for n in (1100, 2100):
    items = [g(0)]
    for i in range(n):
      items.append({'kind': 'bad', 'hex': h(bads[i % len(bads)] or b'q'), 'expected': [], 'cls': 'flood'})
      if i % 400 == 399:
        items.append(g(i))
    items.append(g(n))
    yield {'listener': 'line', 'items': items, 'cuts': [7, 900], 'lists': False, 'flood': True}
    yield {'listener': 'udp', 'datagrams': [{'items': items[k:k + 50], 'final_eol': True} for k in range(0, len(items), 50)], 'lists': False, 'flood': True}
    entries = []
    exp = []
    for i in range(n):
      entries.append(('bad', 5) if i % 2 else ('bad', (1,)))
      if i % 400 == 399:
        entries.append(('flood.ok%d' % i, (100 + i, 1.0)))
        exp.append(['flood.ok%d' % i, 100.0 + i, 1.0])
    frames = []
    for k in range(0, len(entries), 100):
      chunk = entries[k:k + 100]
      frames.append({'kind': 'good', 'hex': h(pkl.int32_frame(pickle.dumps(chunk, protocol=2))),
                     'expected': [[e[0], float(e[1][0]), float(e[1][1])] for e in chunk if e[0] != 'bad'], 'cls': 'good-frame-with-bad-entry:flood'})
    yield {'listener': 'pickle', 'items': frames, 'cuts': [3, 5000], 'lists': False, 'flood': True}


def run(ctx):
  if (ctx.shard or 0) == 0:
    for case in flood_cases():
      execute(ctx, case)
  if (ctx.shard or 0) == 0:
    nb = 0
    for case in boundary_cases():
      execute(ctx, case)
      nb += 1
    ctx.extra['boundary_length_cases'] = nb
  n = ctx.scale(520, 4000)
  run_given(ctx, line_cases(), execute, n, salt=1)
  run_given(ctx, pickle_cases(), execute, n, salt=2)
  run_given(ctx, udp_cases(), execute, n, salt=3)
  if not ctx.quick:
    for data in atheris_campaign(ctx, 'c11', 150000):
      if len(data) >= 2:
        execute(ctx, {'listener': ('line', 'pickle', 'udp')[data[0] % 3], 'step': data[1], 'raw': data[2:].hex()})
