"""C13 - the default unpickler cannot be made to load or call arbitrary globals."""
import os
import pickletools
import struct
import sys
import types

from hypothesis import strategies as st

from .. import env, pkl, wire
from ..core import HarnessError
from ..hyp import run_given

LEVEL = 'exploration'
RULE = ('(a) sweep: (module, attribute) pairs of every module loaded in the daemon process (quick: every module x <=8 '
        'attributes + all of os, subprocess, builtins, posix, sys, importlib, pickle, copyreg; thorough: every attribute of '
        'every module) through the text GLOBAL and binary STACK_GLOBAL routes, bare and nested 1-4 levels inside a '
        'well-formed datapoint list; (b) every global-resolving route (GLOBAL, STACK_GLOBAL, INST, OBJ, NEWOBJ, NEWOBJ_EX, '
        'REDUCE, BUILD, EXT1/2/4) for a canary set (recording callables in a planted module, an importable but unimported '
        'module whose import is a recorded side effect, dotted names, allow-listed module with another attribute, the '
        'allow-listed pairs); (c) Hypothesis-generated opcode programs and byte mutations of (a)/(b). Payloads go to the '
        'unpickler selected by get_unpickler(settings.USE_INSECURE_UNPICKLER), to MetricPickleReceiver and to '
        'CacheManagementHandler. Oracle: no canary invoked or imported, audit hook saw no process/socket/dlopen event, '
        'a payload referencing an off-list global raises (listener: no datapoint from that frame), anything that loads is '
        'recursively plain built-in data. Non-trivial = payload reaches a global-resolving opcode (checked by pickletools '
        'disassembly); distinct by (route, module, attribute, nesting, protocol).')
ASSUMPTIONS = [
  'the allow-list is the one in lib/carbon/util.py (copy_reg._reconstructor, __builtin__.object); those two pairs may load or be rejected',
  'the audit hook watches import of canary modules and os.system/os.exec/os.posix_spawn/os.fork/subprocess.Popen/socket.connect/ctypes.dlopen only (codec imports by the unpickler are legitimate)',
  'frozenset, bytearray and memoryview (protocol 4/5 opcodes FROZENSET, BYTEARRAY8, READONLY_BUFFER) count as plain data: they are built from in-band bytes without resolving a global',
]
SIGNATURES = ()

PLAIN = (type(None), bool, int, float, str, bytes, tuple, list, dict, set, frozenset, bytearray, complex, memoryview)
GLOBAL_OPS = {'GLOBAL', 'STACK_GLOBAL', 'INST', 'OBJ', 'NEWOBJ', 'NEWOBJ_EX', 'REDUCE', 'BUILD', 'EXT1', 'EXT2', 'EXT4'}

_state = {'armed': False, 'events': [], 'hook': False, 'canary': None}


def install_canaries():
  if _state['canary'] is not None:
    return _state['canary']
  b = env.bootstrap()
  mod = types.ModuleType('verif_canary')
  mod.CALLS = []
  mod.IMPORTED = []

  def fire(*a, **kw):
    mod.CALLS.append(('fire', a))
    return 'fired'

  class Bomb(object):
    def __init__(self, *a, **kw):
      mod.CALLS.append(('Bomb.__init__', a))

    def __setstate__(self, state):
      mod.CALLS.append(('Bomb.__setstate__', state))

    def __reduce__(self):
      return (fire, ())

  class Sub(object):
    @staticmethod
    def fire2(*a):
      mod.CALLS.append(('Sub.fire2', a))
  mod.fire = fire
  mod.Bomb = Bomb
  mod.Sub = Sub
  sys.modules['verif_canary'] = mod
  d = os.path.join(b.tmp, 'canarypath')
  os.makedirs(d, exist_ok=True)
  with open(os.path.join(d, 'verif_canary_unimported.py'), 'w') as f:
    f.write("import sys\nsys.modules['verif_canary'].IMPORTED.append(__name__)\n"
            "def fire(*a):\n  sys.modules['verif_canary'].CALLS.append(('unimported.fire', a))\n")
  # a package (not yet imported) with a sub-module: a reference to verif_canary_pkg.inner.X must not even run the
  # package's __init__
  pk = os.path.join(d, 'verif_canary_pkg')
  os.makedirs(pk, exist_ok=True)
  with open(os.path.join(pk, '__init__.py'), 'w') as f:
    f.write("import sys\nsys.modules['verif_canary'].IMPORTED.append(__name__)\n")
  with open(os.path.join(pk, 'inner.py'), 'w') as f:
    f.write("import sys\nsys.modules['verif_canary'].IMPORTED.append(__name__)\n"
            "def fire(*a):\n  sys.modules['verif_canary'].CALLS.append(('pkg.inner.fire', a))\n")
  sys.path.append(d)
  import copyreg
  for code, (m, n) in ((240, ('verif_canary', 'fire')), (60000, ('verif_canary', 'Bomb')), (70000, ('os', 'system'))):
    if (m, n) not in copyreg._extension_registry:
      copyreg.add_extension(m, n, code)
  if not _state['hook']:
    watched = ('os.system', 'os.exec', 'os.posix_spawn', 'os.fork', 'os.forkpty', 'os.spawn', 'subprocess.Popen',
               'socket.connect', 'ctypes.dlopen')

    def hook(event, args):
      if not _state['armed']:
        return
      if event == 'import':
        if args and isinstance(args[0], str) and args[0].startswith('verif_canary'):
          _state['events'].append((event, args[0]))
      elif event in watched:
        _state['events'].append((event, repr(args)[:80]))
    sys.addaudithook(hook)
    _state['hook'] = True
  _state['canary'] = mod
  return mod


def reaches_global_opcode(payload):
  try:
    for op, arg, pos in pickletools.genops(payload):
      if op.name in GLOBAL_OPS:
        return True
  except Exception:
    # genops stops at the first malformed opcode; whatever came before counts
    try:
      seen = False
      gen_ = pickletools.genops(payload)
      while True:
        op, arg, pos = next(gen_)
        if op.name in GLOBAL_OPS:
          seen = True
    except Exception:
      return seen
  return False


def is_plain(obj, seen=None, depth=0):
  seen = seen if seen is not None else set()
  if id(obj) in seen:
    return True
  if type(obj) not in PLAIN:
    return False
  if isinstance(obj, (tuple, list, set, frozenset)):
    seen.add(id(obj))
    return all(is_plain(x, seen, depth + 1) for x in obj)
  if isinstance(obj, dict):
    seen.add(id(obj))
    return all(is_plain(k, seen, depth + 1) and is_plain(v, seen, depth + 1) for k, v in obj.items())
  return True


def wrap(ref, nesting):
  """Place a global-referencing fragment inside a well-formed datapoint list."""
  if nesting == 0:
    return ref
  if nesting == 1:
    return pkl.p_list([pkl.p_tuple([pkl.p_str('a.b'), pkl.p_tuple([pkl.p_int(1500000000), ref])])])
  if nesting == 2:
    return pkl.p_list([pkl.p_tuple([ref, pkl.p_tuple([pkl.p_int(1500000000), pkl.p_float(1.0)])])])
  if nesting == 3:
    good = pkl.p_tuple([pkl.p_str('good.one'), pkl.p_tuple([pkl.p_int(1500000000), pkl.p_float(2.0)])])
    return pkl.p_list([good, pkl.p_tuple([pkl.p_str('x'), pkl.p_tuple([pkl.p_list([pkl.p_list([ref])]), pkl.p_int(1)])]), good])
  return pkl.p_list([pkl.p_dict([(pkl.p_str('k'), pkl.p_tuple([pkl.p_list([pkl.p_tuple([ref])])]))])])


ROUTES = ['GLOBAL', 'STACK_GLOBAL', 'INST', 'OBJ', 'NEWOBJ', 'NEWOBJ_EX', 'REDUCE', 'BUILD', 'BUILD_SETSTATE', 'EXT']


def route_fragment(route, module, name, proto):
  arg = pkl.p_str('echo pwned')
  if route == 'GLOBAL':
    return pkl.g_global(module, name)
  if route == 'STACK_GLOBAL':
    return pkl.g_stack_global(module, name)
  if route == 'INST':
    return pkl.g_inst(module, name, [arg])
  if route == 'OBJ':
    return pkl.g_obj(pkl.g_global(module, name), [arg])
  if route == 'NEWOBJ':
    return pkl.g_newobj(pkl.g_global(module, name), pkl.p_tuple([arg]))
  if route == 'NEWOBJ_EX':
    return pkl.g_newobj_ex(pkl.g_stack_global(module, name), pkl.p_tuple([arg]), pkl.p_dict([]))
  if route == 'REDUCE':
    return pkl.g_reduce(pkl.g_global(module, name), pkl.p_tuple([arg]))
  if route == 'BUILD':
    return pkl.g_build(pkl.g_reduce(pkl.g_global(module, name), pkl.p_tuple([])), pkl.p_dict([(pkl.p_str('x'), pkl.p_int(1))]))
  if route == 'BUILD_SETSTATE':
    return pkl.g_build(pkl.g_newobj(pkl.g_global(module, name), pkl.p_tuple([])), pkl.p_tuple([pkl.NONE, pkl.p_dict([(pkl.p_str('__setstate__'), pkl.g_global(module, 'fire'))])]))
  raise ValueError(route)


def min_proto(route):
  return 4 if route in ('STACK_GLOBAL', 'NEWOBJ_EX') else 0


CANARY_TARGETS = [
  ('verif_canary', 'fire'), ('verif_canary', 'Bomb'), ('verif_canary', 'Sub.fire2'), ('verif_canary_unimported', 'fire'),
  ('verif_canary_pkg.inner', 'fire'), ('verif_canary_pkg', 'inner.fire'),
  ('os', 'system'), ('os.path', 'join'), ('os', 'path.join'), ('builtins', 'eval'), ('builtins', 'getattr'),
  ('builtins', 'object'), ('__builtin__', 'eval'), ('__builtin__', 'object'), ('copy_reg', '_reconstructor'),
  ('copy_reg', 'add_extension'), ('copyreg', '_reconstructor'), ('subprocess', 'Popen'), ('posix', 'system'),
  ('carbon.util', 'pickle'), ('carbon.util', 'get_unpickler'), ('pickle', 'loads'), ('importlib', 'import_module'),
  ('sys', 'modules'), ('nosuch_module_verif', 'x'), ('', ''), ('verif_canary', ''), ('twisted.internet.utils', 'getProcessOutput'),
]
# the allow-list in its python-2 spelling (as written in util.py) and its python-3 spelling
ALLOWED = {('copy_reg', '_reconstructor'), ('__builtin__', 'object'), ('copyreg', '_reconstructor'), ('builtins', 'object')}


class _Null(object):
  def write(self, *a):
    pass

  def flush(self):
    pass


_DEVNULL = _Null()


class _Stop(Exception):
  pass


def judge_payload(ctx, case, payload, expect_reject, b, canary, label):
  """Run one payload through the three consumers."""
  get_unpickler = env.need(b.util, 'get_unpickler')
  del canary.CALLS[:]
  del canary.IMPORTED[:]
  del _state['events'][:]
  sys.modules.pop('verif_canary_unimported', None)
  sys.modules.pop('verif_canary_pkg', None)
  sys.modules.pop('verif_canary_pkg.inner', None)
  results = []
  _state['armed'] = True
  saved_stderr = sys.stderr
  sys.stderr = _DEVNULL
  try:
    # 1. the unpickler the listeners obtain with the default setting
    unp = get_unpickler(insecure=b.settings.USE_INSECURE_UNPICKLER)
    try:
      obj = unp.loads(payload)
      results.append(('loads', 'returned', obj))
    except BaseException as e:  # noqa: rejection is what is required
      if isinstance(e, (KeyboardInterrupt, SystemExit)):
        raise
      results.append(('loads', 'raised', e))
    kind0, outcome0, val0 = results[0]
    if outcome0 == 'returned' and (expect_reject or not (is_plain(val0) or case.get('allowed_pair'))):
      # judged below; do not hand a live global object to the listeners (iterating it may never end)
      raise _Stop()
    # 2. pickle listener
    rec = env.Recorder(b.events.metricReceived)
    lst = wire.Listener('pickle', tolerate_connect_failure=bool(case.get('broken_connect')))
    lst.feed(pkl.int32_frame(payload))
    got = list(rec.items)
    rec.detach()
    lst.close()
    # 3. cache query port
    q = wire.Listener('query', tolerate_connect_failure=bool(case.get('broken_connect')))
    q.feed(pkl.int32_frame(payload))
    answered = q.transport.value()
  except _Stop:
    got = []
  finally:
    _state['armed'] = False
    sys.stderr = saved_stderr
  c = dict(case, label=label)
  if canary.CALLS:
    ctx.fail('C13:canary-called', '%s: payload invoked %r' % (label, canary.CALLS[:3]), c, 'no-call')
    return False
  if canary.IMPORTED or 'verif_canary_unimported' in sys.modules or 'verif_canary_pkg' in sys.modules or any(
      e[0] == 'import' for e in _state['events']):
    ctx.fail('C13:module-imported', '%s: payload made the daemon import %r' % (
      label, canary.IMPORTED or [e for e in _state['events'] if e[0] == 'import']), c, 'no-import')
    return False
  if _state['events']:
    ctx.fail('C13:dangerous-audit-event', '%s: audit events %r' % (label, _state['events'][:3]), c, 'no-side-effect')
    return False
  kind, outcome, val = results[0]
  if outcome == 'returned':
    if expect_reject:
      ctx.fail('C13:global-loaded', '%s: loads() returned %r instead of rejecting the payload' % (label, val), c, 'must-reject')
      return False
    if not is_plain(val) and not case.get('allowed_pair'):
      ctx.fail('C13:non-plain-result', '%s: loads() produced %r (type %s), not plain built-in data' % (
        label, val, type(val).__name__), c, 'plain-data')
      return False
  if expect_reject and got:
    ctx.fail('C13:listener-accepted-frame', '%s: pickle listener delivered %r from a frame referencing a global' % (
      label, got[:3]), c, 'frame-rejected')
    return False
  for m, dp in got:
    if type(m) is not str or not is_plain(dp):
      ctx.fail('C13:non-plain-result', '%s: listener delivered non-plain datapoint %r' % (label, (m, dp)), c, 'plain-data')
      return False
  return True


# carbon.conf layouts in which the operator has the option OFF (an instance section overrides the program section;
# booleans are read with ConfigParser.getboolean)
CONF_LAYOUTS = [
  {'main': None, 'inst': None}, {'main': 'False', 'inst': None}, {'main': 'no', 'inst': None},
  {'main': 'True', 'inst': 'False'}, {'main': 'true', 'inst': 'off'}, {'main': 'yes', 'inst': '0'},
  {'main': None, 'inst': 'False'}, {'main': 'False', 'inst': 'false'},
]
_resolved = {}


def resolve_conf(b, layout):
  """USE_INSECURE_UNPICKLER as the daemon's own read_config() resolves it for carbon-cache [instance a]."""
  key = (layout['main'], layout['inst'])
  if key in _resolved:
    return _resolved[key]
  import os
  from carbon import conf
  root = os.path.join(b.tmp, 'c13conf')
  os.makedirs(os.path.join(root, 'conf'), exist_ok=True)
  path = os.path.join(root, 'conf', 'carbon.conf')
  with open(path, 'w') as f:
    f.write('[cache]\nMAX_CACHE_SIZE = inf\n')
    if layout['main'] is not None:
      f.write('USE_INSECURE_UNPICKLER = %s\n' % layout['main'])
    f.write('[cache:b]\nUSE_INSECURE_UNPICKLER = True\n')
    if layout['inst'] is not None:
      f.write('[cache:a]\nUSE_INSECURE_UNPICKLER = %s\n' % layout['inst'])
  opts = {'config': path, 'instance': 'a' if layout['inst'] is not None else None, 'pidfile': None, 'logdir': None}
  resolved = env.need(conf, 'read_config')('carbon-cache', opts, ROOT_DIR=root)
  _resolved[key] = resolved['USE_INSECURE_UNPICKLER']
  return _resolved[key]


def execute(ctx, case):
  if case.get('python_O') and __debug__:
    # a replay of a violation that only exists without assert statements: re-run it in such an interpreter
    return run_optimised_child(ctx, only_case=case)
  b = env.bootstrap()
  env.reset()
  canary = install_canaries()
  if b.settings.USE_INSECURE_UNPICKLER:
    raise HarnessError('USE_INSECURE_UNPICKLER default is not off')
  if case.get('conf') is not None:
    b.settings['USE_INSECURE_UNPICKLER'] = resolve_conf(b, case['conf'])
  if case.get('broken_connect'):
    # a carbon.conf mistake that makes connectionMade() raise half-way (the idle timeout written as '5m'): the
    # connection stays open, whatever it was set up with so far decodes the frames
    b.settings['METRIC_CLIENT_IDLE_TIMEOUT'] = '5m'
  kind = case['kind']
  if kind == 'global':
    module, name, route, nesting, proto = case['module'], case['name'], case['route'], case['nesting'], case['proto']
    if route == 'EXT':
      frag = pkl.g_ext(case['code'])
      if case.get('call'):
        frag = pkl.g_reduce(frag, pkl.p_tuple([pkl.p_str('echo pwned')]))
    else:
      frag = route_fragment(route, module, name, proto)
    payload = pkl.program(wrap(frag, nesting), max(proto, min_proto(route)), framed=case.get('framed', False))
    allowed = (module, name) in ALLOWED and route in ('GLOBAL', 'STACK_GLOBAL')
    c = dict(case, allowed_pair=(module, name) in ALLOWED)
    ok = judge_payload(ctx, c, payload, not ((module, name) in ALLOWED), b, canary,
                       '%s %s.%s nesting=%d proto=%d' % (route, module, name, nesting, proto))
    if ok:
      ctx.note(case, nontrivial=reaches_global_opcode(payload),
               classes=['route:' + route, 'nesting=%d' % nesting] + (['allow-listed pair'] if allowed else []) + (
                 ['option resolved from carbon.conf sections'] if case.get('conf') else []),
               key=[route, module, name, nesting, proto] + ([case['conf']['main'], case['conf']['inst']] if case.get('conf') else []) + (['broken-connect'] if case.get('broken_connect') else []))
    return ok
  if kind == 'raw':
    payload = bytes.fromhex(case['hex'])
    ok = judge_payload(ctx, case, payload, False, b, canary, 'raw %s' % case['hex'][:60])
    if ok:
      ctx.note(case, nontrivial=reaches_global_opcode(payload), classes=['raw-program'], key=case['hex'])
    return ok
  raise HarnessError('unknown case kind %r' % kind)


def sweep_pairs(ctx):
  mods = sorted(m for m in sys.modules if isinstance(m, str) and sys.modules[m] is not None)
  full = {'os', 'subprocess', 'builtins', 'posix', 'sys', 'importlib', 'pickle', 'copyreg', 'carbon.util', 'verif_canary'}
  for mi, m in enumerate(mods):
    if not ctx.quick and mi % ctx.nshards != (ctx.shard or 0):
      continue
    try:
      attrs = sorted(a for a in dir(sys.modules[m]) if isinstance(a, str))
    except Exception:
      continue
    if ctx.quick and m not in full:
      step = max(1, len(attrs) // 8)
      attrs = attrs[::step][:8]
    for a in attrs:
      yield m, a


def child_main():
  """Run in a second interpreter (started with -O by run()): the canary set over every route; prints the first
  violation as JSON.  `assert`-based guards vanish there, a legal way to run the daemon."""
  import json
  from ..core import Ctx, Violation
  ctx = Ctx('C13', 'quick', 1)
  ctx.replaying = True
  out = {'assert_enabled': False, 'runs': 0, 'violation': None}
  try:
    assert False
  except AssertionError:
    out['assert_enabled'] = True
  sys.unraisablehook = lambda *a: None
  import os
  one = os.environ.get('VERIF_C13_CASE')
  try:
    if one:
      execute(ctx, dict(json.loads(one), python_O=False))
      out['runs'] += 1
    else:
      for (m, a) in CANARY_TARGETS:
        for route in ROUTES[:-1]:
          for nesting, proto in ((0, 2), (2, 4)):
            execute(ctx, {'kind': 'global', 'module': m, 'name': a, 'route': route, 'nesting': nesting, 'proto': proto})
            out['runs'] += 1
  except Violation as v:
    out['violation'] = {'sig': v.sig, 'message': v.message, 'case': v.case}
  sys.__stdout__.write('C13CHILD ' + json.dumps(out, default=repr) + '\n')


def run_optimised_child(ctx, only_case=None):
  import json
  import os
  import subprocess
  envv = dict(os.environ)
  envv.pop('PYTHONOPTIMIZE', None)
  envv.pop('VERIF_C13_CASE', None)
  if only_case is not None:
    envv['VERIF_C13_CASE'] = json.dumps(only_case)
  p = subprocess.run([sys.executable, '-O', '-c', 'from verif.props import c13; c13.child_main()'], env=envv,
                     stdout=subprocess.PIPE, stderr=subprocess.STDOUT, timeout=600)
  lines = [l for l in p.stdout.decode('utf-8', 'replace').splitlines() if l.startswith('C13CHILD ')]
  if not lines:
    raise HarnessError('optimised child interpreter produced no result: %s' % p.stdout.decode('utf-8', 'replace')[-800:])
  res = json.loads(lines[-1][len('C13CHILD '):])
  if res['assert_enabled']:
    raise HarnessError('child interpreter was not started with -O')
  ctx.extra['runs_in_optimised_interpreter'] = res['runs']
  ctx.evaluations += res['runs']
  if res['violation']:
    v = res['violation']
    ctx.fail(v['sig'], 'interpreter started with -O (assert statements removed): ' + v['message'], dict(v['case'], python_O=True), 'python -O')


def run(ctx):
  b = env.bootstrap()
  install_canaries()
  if (ctx.shard or 0) == 0:
    run_optimised_child(ctx)
  # hostile programs make CPython emit "Exception ignored" noise (e.g. bytearray with exported buffers)
  sys.unraisablehook = lambda *a: None
  # (a) sweep over loaded modules
  n = 0
  for m, a in sweep_pairs(ctx):
    if '\n' in m or '\n' in a:
      continue
    variants = [('GLOBAL', 0, 2), ('STACK_GLOBAL', 0, 4)]
    k = n % 4 + 1
    variants.append(('GLOBAL' if n % 2 else 'STACK_GLOBAL', k, 4 if not n % 2 else n % 3))
    for route, nesting, proto in variants:
      if not execute(ctx, {'kind': 'global', 'module': m, 'name': a, 'route': route, 'nesting': nesting, 'proto': proto}):
        break
    n += 1
  ctx.extra['module_attribute_pairs_swept'] = n
  ctx.extra['modules_loaded'] = len(sys.modules)
  if not ctx.quick:
    ctx.exhaustive = True
  # (b) every route for the canary set
  if (ctx.shard or 0) == 0:
    for (m, a) in CANARY_TARGETS:
      for route in ROUTES[:-1]:
        for nesting in range(0, 5):
          for proto in (0, 2, 4, 5):
            execute(ctx, {'kind': 'global', 'module': m, 'name': a, 'route': route, 'nesting': nesting, 'proto': proto,
                          'framed': proto >= 4 and nesting % 2 == 1})
    # the option as resolved from carbon.conf (program section / instance section) rather than the built-in default
    for layout in CONF_LAYOUTS:
      for (m, a) in CANARY_TARGETS[:4]:
        for route in ROUTES[:3]:
          execute(ctx, {'kind': 'global', 'module': m, 'name': a, 'route': route, 'nesting': 1, 'proto': 2, 'conf': layout})
    for (m, a) in CANARY_TARGETS[:6]:
      for route in ROUTES[:4]:
        execute(ctx, {'kind': 'global', 'module': m, 'name': a, 'route': route, 'nesting': 1, 'proto': 2, 'broken_connect': True})
    for code in (240, 60000, 70000):
      for call in (False, True):
        for nesting in range(0, 5):
          execute(ctx, {'kind': 'global', 'module': 'ext', 'name': str(code), 'route': 'EXT', 'code': code, 'call': call,
                        'nesting': nesting, 'proto': 2})
  # (c) generated opcode programs and mutations
  from .c11 import mutated
  frag = st.sampled_from([
    b'(', b')', b']', b'}', b'0', b'2', b'a', b'e', b'l', b't', b's', b'u', b'd', b'N', b'R', b'b', b'o', b'\x85', b'\x86',
    b'\x88', b'\x81', b'\x92', b'\x93', b'\x94', b'\x90', b'\x91', b'\x8f', b'K\x01', b'I01\n', b'F1.5\n', b'U\x01a', b'X\x01\x00\x00\x00a',
    b'\x8c\x04fire', b'\x8c\x0cverif_canary', b'\x8c\x02os', b'\x8c\x06system', b'\x8c\x08builtins', b'\x8c\x04eval',
    b'\x8c\x17verif_canary_unimported', b'\x8c\x0a__import__', b'\x8c\x07getattr', b'\x8c\x0a1+1',
    b'q\x00', b'h\x00', b'h\x01', b'\x8a\x01\x01', b'\x82\xf0', b'\x83\x60\xea', b'\x84\x70\x11\x01\x00',
    b'cos\nsystem\n', b'cverif_canary\nfire\n', b'cverif_canary\nBomb\n', b'cverif_canary_unimported\nfire\n',
    b'c__builtin__\nobject\n', b'ccopy_reg\n_reconstructor\n', b'cbuiltins\ngetattr\n', b'iverif_canary\nBomb\n',
    b'iverif_canary\nfire\n', b'Pid\n', b'Q', b'\x95\x02\x00\x00\x00\x00\x00\x00\x00', b'\x80\x04', b'\x80\x02',
    b'\x96\x01\x00\x00\x00\x00\x00\x00\x00a', b'C\x01a', b'\x97', b'\x98',
  ])
  programs = st.lists(frag, min_size=1, max_size=14).map(lambda fs: b''.join(fs) + b'.')

  def exec_raw(ctx_, payload):
    execute(ctx_, {'kind': 'raw', 'hex': payload.hex()})
  run_given(ctx, programs, exec_raw, ctx.scale(2500, 12000), salt=1)

  @st.composite
  def mutated_global(draw):
    m, a = draw(st.sampled_from(CANARY_TARGETS))
    route = draw(st.sampled_from(ROUTES[:-1]))
    proto = draw(st.sampled_from([0, 2, 4]))
    payload = pkl.program(wrap(route_fragment(route, m, a, proto), draw(st.integers(0, 4))), max(proto, min_proto(route)))
    return draw(mutated(payload))
  run_given(ctx, mutated_global(), exec_raw, ctx.scale(1500, 8000), salt=2)
  if not ctx.quick:
    from .c11 import atheris_campaign
    for data in atheris_campaign(ctx, 'c13', 100000):
      exec_raw(ctx, data)
