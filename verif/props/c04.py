"""C04 - an orderly shutdown writes out everything that was accepted."""
import zlib

from hypothesis import strategies as st

from .. import cachesim, core, writersim
from ..hyp import run_given
from . import c02, c03

LEVEL = 'exploration'
RULE = ('Receiving-thread programs of <=6 stores (unique values, old and fresh timestamps), virtual waits '
        '(0.05-3 s, so the writer reaches its idle sleep) and one orderly stop (carbon\'s own '
        'shutdownModifyUpdateSpeed() trigger, then reactor.running=False) at a generated position, run against the real '
        'writeForever() thread under generated line-granular schedules, a third of the cases once more in a daemon whose '
        'storage-schemas reload timer had ended earlier; 6 strategies x MIN_TIMESTAMP_LAG {0,5} x '
        'MAX_UPDATES_PER_SECOND {off,1} x MAX_CREATES_PER_MINUTE {off,1} x MAX_UPDATES_PER_SECOND_ON_SHUTDOWN '
        '{absent,1000}; quick also places one preemption at every step of one fixed workload (every prefix, sorted and '
        'timesorted); thorough enumerates every stop placement (every preemption point of the writer loop x every gap '
        'between stores, and strided pairs) for fixed workloads under all strategies. Oracle after writeForever() returns: the cache holds no datapoint and '
        'every accepted value was written exactly once or accounted for (C03 oracle). Non-trivial = stop arrives while '
        'the writer is in its idle sleep with data cached, or between a drain and its write, or with timesorted data '
        'younger than the lag; distinct by hash of the case.')
ASSUMPTIONS = [
  'stop = before-shutdown trigger shutdownModifyUpdateSpeed() followed by reactor.running=False; Twisted then joins the thread pool, modelled by letting the writer thread run to completion',
  'a periodic reload timer whose function raised once is a LoopingCall that is no longer running (Twisted stops it and logs the failure); the harness puts the timer into that state by stopping it before the history starts',
  'no backend faults here (C03 covers them); a dropped create under create limiting is a legitimate accounted non-write',
  'runs that exceed the step budget are counted as inconclusive, never as violations',
]
SIGNATURES = ()

T0 = writersim.T0
METRICS = ['a', 'b', '', 'c;env=prod']      # '' is a legal (and falsy) metric name; a tagged series goes through the tag queue


@st.composite
def cases(draw, strategy=None):
  strategy = strategy or draw(st.sampled_from(cachesim.STRATEGIES))
  lag = draw(st.sampled_from([0, 5])) if strategy != 'timesorted' else draw(st.sampled_from([0, 5, 5]))
  tss = [T0 - 100, T0 - 3, T0, T0 + 2]
  counter = [-1]       # values are unique ids 0, 1, 2, ...: the first one is the falsy 0
  recv = []
  for _ in range(draw(st.integers(1, 8))):
    k = draw(st.integers(0, 7))
    if k < 2:
      recv.append(['wait', draw(st.sampled_from([0.05, 0.5, 1, 1.5, 3]))])
    else:
      counter[0] += 1
      recv.append(['store', draw(st.sampled_from(METRICS)), draw(st.sampled_from(tss)), counter[0]])
  recv.append(['stop'])
  return {
    'strategy': strategy, 'lag': lag, 'recv': recv,
    'updates_per_second': draw(st.sampled_from([None, None, 1])),
    'creates_per_minute': draw(st.sampled_from([None, None, 1])),
    'shutdown_rate': draw(st.sampled_from([None, 1000])),
    'precreated': draw(st.lists(st.sampled_from(METRICS), unique=True, max_size=3)),
    'switches': draw(c02.switch_lists(max_switches=10, max_gap=50)), 'first': draw(st.integers(0, 1)),
  }


def execute(ctx, case):
  run = writersim.run_case(case)
  if run.aborted == 'step-limit':
    if run.recv_exc is not None:
      ctx.fail('C04:stop-raised', 'the stop sequence raised %r and the writer never stopped' % (run.recv_exc,), case)
      return
    ctx.count('inconclusive: step limit')
    return
  acc = c03.judge(ctx, case, run, prefix='C04')
  if acc is None:
    return
  left = {m: d for m, d in run.final.items() if d}
  if left:
    at = getattr(run, 'at_stop', {})
    if at.get('writer_sleeping'):
      sig = 'C04:stored-during-idle-sleep'
    elif at.get('younger_than_lag'):
      sig = 'C04:younger-than-lag-at-stop'
    else:
      sig = 'C04:left-in-cache'
    ctx.fail(sig, 'after the orderly stop at t=%.2f writeForever() returned at t=%.2f with %r still cached '
             '(state at stop: %r; strategy %s lag %s)' % (run.stop_time - T0, run.end_time - T0, left, at,
                                                         case['strategy'], case['lag']), case, 'shutdown-drain')
    return
  at = getattr(run, 'at_stop', {})
  classes = [case['strategy'], 'lag=%s' % case['lag']]
  nt = False
  if at.get('writer_sleeping') and at.get('cached'):
    classes.append('stop during idle sleep with data cached')
    nt = True
  if at.get('between_drain_and_write'):
    classes.append('stop between drain and write')
    nt = True
  if at.get('younger_than_lag'):
    classes.append('stop with data younger than the lag')
    nt = True
  if acc['dropped']:
    classes.append('dropped create at shutdown')
  if getattr(run, 'reload_ended', False):
    classes.append('stop after a schema reload timer had ended')
  ctx.note(case, nontrivial=nt, classes=classes)


def execute_both(ctx, case):
  """every generated history as it is, and every third one (picked by a checksum of the case, so that the choice is a
  function of the generated value) once more in a daemon whose storage-schemas reload timer ended earlier in its life
  (its function raised once)"""
  execute(ctx, case)
  if zlib.crc32(core.canon(case).encode('utf-8')) % 3 == 0:
    execute(ctx, dict(case, reload_ended=True))


FIXED = [
  [['store', 'a', T0, 1], ['store', 'b', T0 - 100, 2], ['wait', 1.5], ['store', 'a', T0 + 1, 3], ['store', 'c', T0, 4]],
  [['store', 'a', T0 - 100, 1], ['wait', 0.5], ['store', 'a', T0, 2], ['wait', 1], ['store', 'b', T0, 3]],
]


def enumerate_stops(ctx, jobs, pairs):
  """the stop after every prefix of a fixed workload x every placement of one preemption (and, strided, of two)"""
  total = 0
  for (wi, s, lag, ups) in jobs:
    wl = FIXED[wi]
    # every gap between two receiver ops x every preemption point
    for gap in range(len(wl) + 1):
      recv = wl[:gap] + [['stop']]
      base = {'strategy': s, 'lag': lag, 'recv': recv, 'updates_per_second': ups, 'creates_per_minute': None,
              'shutdown_rate': None, 'precreated': ['a'], 'switches': [], 'first': 0}
      n_steps = writersim.run_case(base).steps + 10
      for first in (0, 1):
        for i in range(1, n_steps):
          execute(ctx, dict(base, switches=[[i, 1]], first=first))
          total += 1
        if not pairs:
          continue
        for i in range(1, n_steps, 4):
          for j in range(i + 1, n_steps, 4):
            execute(ctx, dict(base, switches=[[i, 1], [j, 1]], first=first))
            total += 1
  return total


def run(ctx):
  n = 330 if ctx.quick else 1200
  for i, s in enumerate(cachesim.STRATEGIES):
    run_given(ctx, cases(s), execute_both, n, salt=80 + i)
  if ctx.quick:
    # windows of one line in the writer loop are hit by a generated schedule only now and then: the quick tier places
    # one preemption everywhere for one workload under two strategies
    ctx.extra['stop_placements_enumerated'] = enumerate_stops(ctx, [(1, 'sorted', 0, None), (1, 'timesorted', 5, None)], False)
  else:
    jobs = [(wi, s, lag, ups) for wi in range(len(FIXED)) for s in cachesim.STRATEGIES for lag in (0, 5) for ups in (None, 1)]
    jobs = [j for ji, j in enumerate(jobs) if ji % ctx.nshards == (ctx.shard or 0)]
    ctx.extra['stop_placements_enumerated'] = enumerate_stops(ctx, jobs, True)
