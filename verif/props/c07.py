"""C07 - relay send queues deliver in order, exactly once, within their bounds."""
import fractions
import math

from hypothesis import strategies as st

from .. import relaysim
from ..hyp import run_given

LEVEL = 'exploration'
RULE = ('Event sequences (<= 45 events) over {datapoint arrives, burst of arrivals, self-metric arrives, connection made, '
        'connect failed, connection lost, transport paused, transport resumed, timer advance, stop} for a relay wired by '
        "carbon's own setupPipeline(['relay']) with 1-4 destinations (consistent hashing, REPLICATION_FACTOR 1) on a "
        'simulated reactor; MAX_QUEUE_SIZE 1-12, MAX_DATAPOINTS_PER_MESSAGE 1-15, QUEUE_LOW_WATERMARK_PCT {0.2,0.5,0.8}, '
        'MAX_QUEUE_SIZE_HARD_PCT {1.0,1.25,2}, flow control on/off, DYNAMIC_ROUTER on/off (max retries 1-2), pickle and '
        'line client protocols; thorough adds all event sequences of length <= 4 over a 10-symbol alphabet after a fixed '
        'prefix for fixed configurations. Oracle: per destination the written datapoints are an order-preserving '
        'subsequence of the arrivals at its queue, no id written twice anywhere; a drop happens only at the hard limit and '
        'fullQueueDrops equals the observed drops; non-priority queue length <= ceil(hard limit) after every step, and a '
        'destination that is out of the dynamic router holds no queued datapoints after any step; at '
        'quiescence (all destinations reachable, transports resumed, timers fired) every id is written exactly once or '
        'counted as dropped (or buffered when no destination is configured); a stop closes a connection only after the '
        'datapoints queued at stop time were written. Non-trivial = a disconnect with a non-empty queue followed by a '
        'reconnect, or pause/resume with >= 2 batches pending, or a hard-limit drop, or a dynamic-router removal with a '
        'non-empty queue; distinct by hash of the case.')
ASSUMPTIONS = [
  'bytes handed to a transport count as transmitted (loss in flight after a connection drop is outside carbon)',
  'hard limit = MAX_QUEUE_SIZE * MAX_QUEUE_SIZE_HARD_PCT under flow control, MAX_QUEUE_SIZE otherwise (carbon.conf.example); with a fractional limit the largest reachable size is ceil(limit)',
  'Twisted delivers connectionLost after loseConnection(); the harness does so right after the step that requested it',
  'DESTINATION_POOL_REPLICAS off; replication factor 1 so that exactly-once is a global statement',
]
SIGNATURES = ()


@st.composite
def cases(draw):
  nd = draw(st.integers(1, 4))
  ops = []
  for d in range(nd):
    if draw(st.integers(0, 4)):
      ops.append(['connect_ok', d])
  for _ in range(draw(st.integers(3, 40))):
    k = draw(st.integers(0, 24))
    d = draw(st.integers(0, nd - 1))
    if k <= 6:
      ops.append(['dp'])
    elif k <= 8:
      ops.append(['burst', draw(st.sampled_from([3, 8, 20, 40]))])
    elif k == 9:
      ops.append(['self'])
    elif k <= 11:
      ops.append(['connect_ok', d])
    elif k == 12:
      ops.append(['connect_fail', d])
    elif k <= 14:
      ops.append(['lost', d])
    elif k <= 16:
      ops.append(['pause', d])
    elif k <= 18:
      ops.append(['resume', d])
    elif k <= 22:
      ops.append(['advance', draw(st.sampled_from([0.0001, 0.0001, 0.001, 1.0, 6.0, 30.0]))])
    elif k == 23 and draw(st.booleans()):
      ops.append(['record'])
    else:
      ops.append(['stop'])
  ratio_reset = draw(st.integers(0, 4)) == 0
  if ratio_reset:
    # the quality monitor looks at the previous instrumentation period: make sure there are some, and time between them
    for _ in range(draw(st.integers(1, 3))):
      pos = draw(st.integers(1, len(ops)))
      ops[pos:pos] = [['record'], ['advance', draw(st.sampled_from([1.0, 3.0, 6.0]))]]
  return {'ndest': nd, 'protocol': draw(st.sampled_from(['pickle', 'line'])),
          'max_queue': draw(st.integers(1, 12)), 'batch': draw(st.integers(1, 15)),
          'low_pct': draw(st.sampled_from([0.2, 0.5, 0.8])), 'hard_pct': draw(st.sampled_from([1.0, 1.25, 2])),
          'flow': draw(st.booleans()), 'dynamic': draw(st.booleans()), 'max_retries': draw(st.sampled_from([1, 2])),
          'pause_after': draw(st.sampled_from([None, None, None, 25, 120, 600])),
          'ratio_reset': ratio_reset,
          # RELAY_METHOD: rules send each series to the destinations of its rule only (nothing is re-hashed to the others)
          'method': draw(st.sampled_from(['consistent-hashing', 'consistent-hashing', 'rules'])),
          'ops': ops}


def is_subsequence(small, big):
  it = iter(big)
  return all(any(x == y for y in it) for x in small)


def hard_limit(case):
  if case['flow']:
    return fractions.Fraction(case['max_queue']) * fractions.Fraction(str(case.get('hard_pct', 1.25)))
  return fractions.Fraction(case['max_queue'])


def judge(ctx, case, t):
  hard = hard_limit(case)
  cap = math.ceil(hard)
  if abs(fractions.Fraction(t.hard) - hard) > fractions.Fraction(1, 10**6):
    ctx.fail('C07:hard-limit-derivation', 'client derives SEND_QUEUE_HARD_MAX=%r, documented %s' % (t.hard, float(hard)), case)
    return False
  all_written = {}
  for d in t.dests:
    arr = t.arrivals[d]
    # drops only at the hard limit
    for (i, kind, accepted, before, nonprio) in arr:
      if kind != 'normal':
        continue
      if not accepted and (before < hard or before < case['max_queue']):
        ctx.fail('C07:dropped-below-limit', 'destination %r: datapoint %d discarded with %d queued (hard limit %s, MAX_QUEUE_SIZE %d)' % (
          d, i, before, float(hard), case['max_queue']), case, 'drop-only-at-limit')
        return False
      if accepted and nonprio >= cap:
        ctx.fail('C07:queue-over-limit', 'destination %r: datapoint %d accepted with %d non-priority datapoints queued (hard limit %s)' % (
          d, i, nonprio, float(hard)), case, 'bound')
        return False
    drops = sum(1 for a in arr if a[1] == 'normal' and not a[2])
    name = ('%s:%d:%s' % d).replace('.', '_')
    counted = t.stats.get('destinations.%s.fullQueueDrops' % name, 0)
    rep = sum(sum(v) for k, v in t.reported.items() if k == 'destinations.%s.fullQueueDrops' % name)
    if counted + rep != drops + t.own_drops[d]:
      ctx.fail('C07:drops-not-counted', 'destination %r: %d datapoints discarded (%d of them the relay\'s own periodic metrics), '
               'fullQueueDrops: %d reported by %d instrumentation runs + %d in the running counter' % (
                 d, drops + t.own_drops[d], t.own_drops[d], rep, t.records, counted), case, 'counted')
      return False
    w = t.written[d]
    if len(set(w)) != len(w):
      dup = [x for x in w if w.count(x) > 1][0]
      ctx.fail('C07:written-twice', 'destination %r: datapoint %d written twice (%r)' % (d, dup, w), case, 'exactly-once')
      return False
    for x in w:
      if x in all_written:
        ctx.fail('C07:written-twice', 'datapoint %d written to %r and to %r' % (x, all_written[x], d), case, 'exactly-once')
        return False
      all_written[x] = d
    prio_here = set(a[0] for a in arr if a[1] == 'priority')
    accepted_normal = [a[0] for a in arr if a[1] == 'normal' and a[2]]
    w_normal = [x for x in w if x not in prio_here]
    if not is_subsequence(w_normal, accepted_normal):
      ctx.fail('C07:order-violated', 'destination %r: written %r is not an order-preserving subsequence of the arrivals %r' % (
        d, w_normal, accepted_normal), case, 'in-order')
      return False
    for x in w:
      if x not in prio_here and x not in accepted_normal:
        ctx.fail('C07:invented-datapoint', 'destination %r wrote %d which never arrived at its queue' % (d, x), case)
        return False
  for d in t.dests:
    for tr in t.transports[d]:
      # a close requested by the stop: nothing may be written after it (a quality reset closes a connection while
      # the batch in hand is still written; TCP flushes it)
      info_ = t.closing_seen.get(id(tr), {})
      if getattr(tr, 'late_writes', None) and not info_.get('quality_reset'):
        ctx.fail('C07:write-after-close', 'destination %r: %d bytes were written to the connection after loseConnection() had '
                 'been called on it (close requested before the queue was transmitted)' % (d, sum(map(len, tr.late_writes))),
                 case, 'stop-drains')
        return False
  # stop: a connection may be closed only after what was queued at stop time has been written
  if t.stop_snapshot is not None:
    for info in t.closing_seen.values():
      if not info['stopped'] or info.get('quality_reset'):
        continue           # (a quality reset is not the stop closing the connection: the queue goes out on the next one)
      d = info['dest']
      missing = [x for x in t.stop_snapshot[d] if x not in info['written']]
      if missing:
        ctx.fail('C07:closed-before-queue-sent', 'destination %r: connection closed after stop while %r (queued at stop time) '
                 'had not been written' % (d, missing), case, 'stop-drains')
        return False
  # final accounting at quiescence
  last_status = {}
  for d in list(t.dests) + [None]:
    for a in t.arrivals[d]:
      if a[1] == 'normal' and not a[2]:
        last_status[a[0]] = 'dropped'
  in_queues = set(x for q in t.final_queues.values() for x in q)
  in_buffer = set(t.final_buffer)
  for i in t.all_ids:
    places = []
    if i in all_written:
      places.append('written')
    if last_status.get(i) == 'dropped' and i not in all_written and i not in in_queues and i not in in_buffer:
      places.append('dropped')
    if i in in_queues:
      places.append('queued')
    if i in in_buffer:
      places.append('buffered')
    if len(places) != 1:
      ctx.fail('C07:lost-datapoint' if not places else 'C07:duplicated-datapoint',
               'datapoint %d ends up %s (arrivals: %r)' % (i, places or 'nowhere: neither written, queued, buffered nor counted as dropped',
                                                         [(d, a) for d in list(t.dests) + [None] for a in t.arrivals[d] if a[0] == i]),
               case, 'conservation')
      return False
  if case.get('quiesce', 'all-up') == 'all-up':
    if t.stop_snapshot is None and t.router_dests and t.final_buffer:
      ctx.fail('C07:buffered-datapoints-stranded', 'destinations %r are up and routed at quiescence but %r are still parked in the '
               'no-destination buffer' % (sorted(t.router_dests, key=repr), t.final_buffer), case, 'rerouted-not-lost')
      return False
    for d in t.dests:
      if t.final_states[d] == 'connected' and t.final_queues[d]:
        ctx.fail('C07:queue-not-drained', 'destination %r is connected and un-paused at quiescence with %r still queued' % (
          d, t.final_queues[d]), case, 'quiescence')
        return False
  return True


def classify(case, t):
  classes = [case['protocol'], 'dests=%d' % case['ndest'], 'flow' if case['flow'] else 'noflow',
             'dynamic' if case['dynamic'] else 'static', 'method=' + case.get('method', 'consistent-hashing')]
  nt = False
  ev = t.events
  # disconnect with non-empty queue followed by reconnect
  for k, e in enumerate(ev):
    if e[0] == 'lost':
      d = e[1]
      queued_before = any(x[0] in ('arrive', 'arrive-priority') and x[1] == d for x in ev[:k])
      if queued_before and any(x[0] == 'connect_ok' and x[1] == d for x in ev[k + 1:]) and \
         any(x[0] == 'written' and x[1] == d for x in ev[k + 1:]):
        classes.append('reconnect with data pending')
        nt = True
        break
  if any(a[1] == 'normal' and not a[2] for d in t.dests for a in t.arrivals[d]):
    classes.append('hard-limit drop')
    nt = True
  if any(e[0] == 'resume' for e in ev) and any(e[0] == 'pause' for e in ev):
    classes.append('pause/resume')
    for k, e in enumerate(ev):
      if e[0] == 'resume' and sum(1 for x in ev[k + 1:] if x[0] == 'written' and x[1] == e[1]) > case['batch']:
        nt = True
        classes.append('resume with >= 2 batches pending')
        break
  if case['dynamic'] and len(t.router_dests) < case['ndest'] or any(
      a[0] in [b[0] for b in t.arrivals[d2]] for d in t.dests for a in t.arrivals[d] for d2 in list(t.dests) + [None] if d2 != d):
    classes.append('re-routed after dynamic removal')
    nt = True
  if t.stop_snapshot is not None:
    classes.append('stop')
    if any(t.stop_snapshot[d] for d in t.dests):
      classes.append('stop with data queued')
      nt = True
  if any(getattr(tr, 'pushed_back', 0) for d in t.dests for tr in t.transports[d]):
    classes.append('transport pushed back from inside write()')
  if any(v for k, v in t.stats.items() if k.endswith('slowConnectionReset')) or any(
      sum(v) for k, v in t.reported.items() if k.endswith('slowConnectionReset')):
    classes.append('connection reset for quality reasons')
    nt = True
  if t.records:
    classes.append('instrumentation timer fired')
    if any(t.own_drops.values()):
      classes.append('own periodic metric discarded at a full queue')
      nt = True
  if t.priority_ids:
    classes.append('self-metric')
  return nt, sorted(set(classes))


def step_bound(ctx, case):
  cap = math.ceil(hard_limit(case))
  bad = []

  def hook(t, step, op):
    if bad:
      return
    for d, f in t.factories.items():
      nonprio = sum(1 for m, dp in f.queue if dp[1] not in t.priority_ids)
      if nonprio > cap:
        bad.append('after step %d %r destination %r holds %d non-priority datapoints, hard limit %s' % (
          step, op, d, nonprio, float(hard_limit(case))))
  # a destination the dynamic router has declared down keeps nothing: what it had queued was handed back to the
  # pipeline (to the remaining destinations, or to the no-destination buffer), and nothing is routed to it until it is
  # up again - so while it is out of the router its queue is empty, whichever destination returns first
  stuck = []

  def hook2(t, step, op):
    hook(t, step, op)
    if stuck or not case.get('dynamic') or t.stop_snapshot is not None:
      return
    for d, f in t.factories.items():
      if not t.mgr.router.hasDestination(d) and len(f.queue):
        stuck.append('after step %d %r destination %r is out of the dynamic router with %d datapoints still in its queue' % (
          step, op, d, len(f.queue)))
  return hook2, bad, stuck


def execute(ctx, case):
  hook, bad, stuck = step_bound(ctx, case)
  t = relaysim.run_case(case, step_hook=hook)
  if bad:
    ctx.fail('C07:queue-over-limit', bad[0], case, 'bound')
    return
  if stuck:
    ctx.fail('C07:queued-at-removed-destination', stuck[0], case, 'rerouted-not-lost')
    return
  if not judge(ctx, case, t):
    return
  nt, classes = classify(case, t)
  ctx.note(case, nontrivial=nt, classes=classes)


ALPHABET = [['dp'], ['burst', 8], ['self'], ['connect_ok', 0], ['connect_fail', 0], ['lost', 0], ['pause', 0], ['resume', 0],
            ['advance', 0.0001], ['advance', 6.0], ['stop']]


def run(ctx):
  run_given(ctx, cases(), execute, ctx.scale(2200, 6000), salt=1)
  if not ctx.quick:
    import itertools
    configs = [
      {'ndest': 1, 'protocol': 'pickle', 'max_queue': 3, 'batch': 2, 'low_pct': 0.5, 'hard_pct': 1.25, 'flow': True, 'dynamic': False, 'max_retries': 1},
      {'ndest': 2, 'protocol': 'line', 'max_queue': 4, 'batch': 15, 'low_pct': 0.8, 'hard_pct': 1.0, 'flow': False, 'dynamic': True, 'max_retries': 1},
      {'ndest': 1, 'protocol': 'pickle', 'max_queue': 2, 'batch': 1, 'low_pct': 0.2, 'hard_pct': 2, 'flow': True, 'dynamic': True, 'max_retries': 2},
    ]
    prefix = [['connect_ok', 0], ['burst', 8], ['advance', 0.0001]]
    total = 0
    seqs = [s for n in range(1, 5) for s in itertools.product(ALPHABET, repeat=n)]
    for si, seq in enumerate(seqs):
      if si % ctx.nshards != (ctx.shard or 0):
        continue
      for cfg in configs:
        execute(ctx, dict(cfg, ops=prefix + [list(o) for o in seq]))
        total += 1
    ctx.extra['short_sequences_enumerated'] = total
