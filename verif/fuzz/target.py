"""Coverage-guided byte-level fuzz target (atheris / libFuzzer) for the listeners: C11 and C13.

  python -m verif.fuzz.target <c11|c13> <outdir> -runs=N -seed=S [corpus dirs]

The semantic oracle is inside the target (not just "no crash"):
  c11: first byte selects listener + segmentation; no exception may leave the protocol entry point, and the
       connection may be closed only if a line/frame exceeded the configured maximum length;
  c13: the bytes are a pickle payload: no canary may be called or imported, no dangerous audit event, anything
       that loads must be plain data (same judge as the Hypothesis check).
Global carbon state is reset at the top of every iteration.  A failing input is written to <outdir> as
finding-<hash>.bin and the process exits; the parent (verif/props/c11.py, c13.py) converts it into a replay
case and re-judges it through the normal oracle before reporting anything.
"""
import hashlib
import os
import struct
import sys


def main():
  which, outdir = sys.argv[1], sys.argv[2]
  argv = [sys.argv[0]] + sys.argv[3:]
  import atheris
  import resource
  from .. import env, wire
  b = env.bootstrap()
  # hostile pickles ask for multi-GiB memo tables: make such requests fail fast (MemoryError inside the
  # unpickler, which the code under test has to survive) instead of growing the process
  try:
    resource.setrlimit(resource.RLIMIT_AS, (3 << 30, resource.getrlimit(resource.RLIMIT_AS)[1]))
  except Exception:
    pass
  with atheris.instrument_imports(include=['carbon.protocols', 'carbon.util']):
    import importlib
    importlib.reload(b.util)
    importlib.reload(b.protocols)
  os.makedirs(outdir, exist_ok=True)

  def save(data, why):
    h = hashlib.sha1(data).hexdigest()[:12]
    with open(os.path.join(outdir, 'finding-%s.bin' % h), 'wb') as f:
      f.write(data)
    with open(os.path.join(outdir, 'finding-%s.txt' % h), 'w') as f:
      f.write(why)
    sys.stdout.write('FUZZ-FINDING %s %s\n' % (h, why[:200]))
    sys.stdout.flush()
    os._exit(77)

  if which == 'c11':
    max_line = 16384

    def one(data):
      if len(data) < 2:
        return
      env.reset()
      kind = ('line', 'pickle', 'udp')[data[0] % 3]
      step = data[1]
      body = data[2:]
      lst = wire.Listener(kind)
      if kind == 'udp':
        lst.datagram(body)
      else:
        cuts = list(range(step, len(body), step)) if step else []
        lst.feed(body, cuts)
      if lst.escaped:
        save(data, '%s: %r escaped the protocol handler' % (kind, lst.escaped[0]))
      if kind == 'line' and lst.transport.disconnecting:
        if not any(len(l) > max_line for l in body.split(b'\n')):
          save(data, 'line: connection closed although no line exceeds MAX_LENGTH')
      if kind == 'pickle' and lst.transport.disconnecting:
        # legitimate only if some length prefix on a frame boundary exceeds the maximum
        off, big = 0, False
        while off + 4 <= len(body):
          (n,) = struct.unpack('!I', body[off:off + 4])
          if n > b.settings.PICKLE_RECEIVER_MAX_LENGTH:
            big = True
            break
          off += 4 + n
        if not big:
          save(data, 'pickle: connection closed although no frame exceeds the maximum length')
      if kind != 'udp' and not lst.escaped:
        lst.close()
  else:
    from ..props import c13
    from ..core import Ctx, Violation
    canary = c13.install_canaries()
    sys.unraisablehook = lambda *a: None
    ctx = Ctx('C13', 'thorough', 0)
    ctx.replaying = True

    def one(data):
      env.reset()
      try:
        c13.judge_payload(ctx, {'kind': 'raw', 'hex': data.hex()}, data, False, b, canary, 'fuzz')
      except Violation as v:
        save(data, '%s: %s' % (v.sig, v.message))

  atheris.Setup(argv, one)
  atheris.Fuzz()


if __name__ == '__main__':
  main()
