#!/bin/bash
# Run every seeded change against the check of the property it targets (scratch copy of /repo/lib),
# record the outcome in seeded/<id>/meta.json.  Optional args: seed ids.
cd /verif
ids="$@"; [ -z "$ids" ] && ids=$(cd seeded && ls -d */ | tr -d /)
for id in $ids; do
  prop=${id%%-*}
  line=$(tools/selftest.py --patch seeded/$id/patch.diff $prop 2>&1 | grep "^$prop" | head -1)
  echo "$line"
  /venv/bin/python - "$id" "$line" <<'P'
import json, sys
id_, line = sys.argv[1:3]
p = '/verif/seeded/%s/meta.json' % id_
m = json.load(open(p))
m['property'] = id_.split('-')[0]
m['detected_by'] = {'check': id_.split('-')[0], 'tier': 'quick', 'result': line.strip()}
json.dump(m, open(p, 'w'), indent=1)
P
done
