#!/bin/bash
# tools/try_seed.sh <worktree-dir> <seed-name> <PROP> [more PROPs...]
# Confirms a seeded change produced in a scratch worktree (tests still pass, demo fails with / passes
# without the change), stores it under /verif/seeded/<seed-name>/ and runs the given checks against a
# scratch copy of /repo/lib with the patch applied.
wt="$1"; name="$2"; shift 2
out=/verif/seeded/$name
mkdir -p "$out"
cd "$wt" || exit 2
git diff -- lib > "$out/patch.diff"
if [ ! -s "$out/patch.diff" ]; then cp _seed/patch.diff "$out/patch.diff"; git apply _seed/patch.diff 2>/dev/null; fi
cp _seed/demo.py "$out/demo.py" 2>/dev/null
cp _seed/meta.json "$out/agent_meta.json" 2>/dev/null
tests=$(PYTHONPATH=$wt/lib /venv/bin/python -m pytest -q -p no:cacheprovider --continue-on-collection-errors lib/carbon/tests 2>&1 | tail -1)
PYTHONPATH=$wt/lib timeout 300 /venv/bin/python _seed/demo.py >/tmp/seed-demo-with.txt 2>&1; with=$?
# (no git stash: the stash is shared by all worktrees of a repository)
git apply -R "$out/patch.diff"
PYTHONPATH=$wt/lib timeout 300 /venv/bin/python _seed/demo.py >/tmp/seed-demo-without.txt 2>&1; without=$?
git apply "$out/patch.diff"
echo "tests: $tests"
echo "demo with change: exit $with ($(tail -1 /tmp/seed-demo-with.txt | cut -c1-120)); without: exit $without"
cd /verif
git -C /repo apply --check "$out/patch.diff" && echo "patch applies to /repo" || echo "PATCH DOES NOT APPLY TO /repo"
res=""
for p in "$@"; do
  line=$(tools/selftest.py --patch "$out/patch.diff" $p 2>&1 | grep "^$p" | head -1)
  echo "$line"
  res="$res | $line"
done
/venv/bin/python - "$out" "$tests" "$with" "$without" "$res" <<'P'
import json, sys, os
out, tests, w, wo, res = sys.argv[1:6]
meta = {}
p = os.path.join(out, 'agent_meta.json')
if os.path.exists(p):
    try: meta = json.load(open(p))
    except Exception: meta = {'agent_meta_unparsable': True}
meta['confirmed'] = {'existing_tests': tests.strip(), 'demo_exit_with_change': int(w), 'demo_exit_without_change': int(wo)}
meta['checks_run'] = res.strip(' |')
json.dump(meta, open(os.path.join(out, 'meta.json'), 'w'), indent=1)
P
rm -f "$out/agent_meta.json" /tmp/seed-demo-with.txt /tmp/seed-demo-without.txt
