#!/bin/bash
# Run the repository's pinned suite and compare with BASELINE.json's stable_pass list.
cd /repo && /venv/bin/python -m pytest -ra -q -p no:cacheprovider --timeout=900 --continue-on-collection-errors --junitxml=/tmp/verif-baseline.xml >/tmp/verif-baseline.log 2>&1
/venv/bin/python - <<'P'
import json, xml.etree.ElementTree as ET
base = set(json.load(open('/root/.vp/BASELINE.json'))['stable_pass'])
t = ET.parse('/tmp/verif-baseline.xml')
passed = set()
for tc in t.iter('testcase'):
    if not any(c.tag in ('failure', 'error', 'skipped') for c in tc):
        passed.add('%s::%s' % (tc.get('classname'), tc.get('name')))
missing = sorted(base - passed)
print('baseline tests passing: %d/%d' % (len(base & passed), len(base)))
for m in missing: print('  NOT PASSING:', m)
P
rm -f /tmp/verif-baseline.xml /tmp/verif-baseline.log
