#!/bin/bash
# Run every quick check at the given seeds in parallel on the unchanged tree (evidence to a scratch dir):
#   tools/multiseed.sh 2 3 4      -> one line per (check, seed); anything but "ok" is a problem
cd "$(dirname "$0")/.."
out=$(mktemp -d /tmp/multiseed.XXXXXX)
one() {
  c=$1; s=$2; out=$3
  mkdir -p $out/ev-$s $out/rp-$s
  r=$(VERIF_SEED=$s VERIF_EVIDENCE_DIR=$out/ev-$s VERIF_REPLAY_DIR=$out/rp-$s ./check $c 2>&1 | grep -v KNOWN-FINDING | tail -3 | tr '\n' ' ' | cut -c1-400)
  echo "[$c seed=$s] $r"
}
export -f one
for s in "$@"; do for c in C01 C02 C03 C04 C05 C06 C07 C08 C09 C10 C11 C12 C13 C14 C15 C16 C17 C18 C19 C20; do echo "$c $s"; done; done |
  xargs -P ${VERIF_JOBS:-14} -L1 bash -c 'one $0 $1 '"$out"
rm -rf "$out"
