#!/venv/bin/python
"""Write _seed/TASK.md into each scratch worktree <root>/CNN for the sub-agents that seed regressions.
usage: tools/mk_seed_tasks.py <root> [--round N]
The agents receive only this file (property text + environment notes), nothing from /verif."""
import json
import os
import sys

TEMPLATE = """# Task: seed a realistic regression that breaks one behavioural property of graphite carbon

Your own scratch git worktree of the repository is **{wt}** (a detached checkout of graphite-project/carbon,
python package under `lib/carbon`). Work ONLY inside this directory. Do not read, list or modify `/repo`, `/verif`, or any
other directory under `{root}`. Do not look for existing verification material anywhere; what you write must be your own,
derived from the property text below and from reading the source code in your worktree.

## The property (it HOLDS for the code as it is in your worktree now)

{prop}

## What to produce

A change to the source code under `lib/carbon/` (not the tests) - the kind of regression a well-meaning refactoring,
optimisation, clean-up or "bug fix" could introduce - that BREAKS this property, while

* the package still imports and the existing test suite passes exactly as before:
  `cd {wt} && PYTHONPATH={wt}/lib /venv/bin/python -m pytest -q -p no:cacheprovider --continue-on-collection-errors lib/carbon/tests`
  must still end with `179 passed` (the `2 failed` and `5 errors` are pre-existing and unrelated: optional libraries are missing);
* the breakage needs something SPECIFIC to manifest - a particular thread interleaving, a crash or fault at a particular point,
  a multi-step sequence of operations, an unusual (but legal) input or configuration, or two cooperating code sites that each
  look fine alone. It must NOT be something ordinary use would expose at once (so: no change that breaks the common path for
  every input). Prefer a subtle change a reviewer could plausibly approve;
* keep the change small (typically 1-15 changed lines, one or two files).
{avoid}
Deliver these files in `{wt}/_seed/`:

1. `patch.diff` - `git diff` of your source change (must apply with `git apply` at the root of a clean checkout; do NOT
   include the `_seed` directory in it);
2. `demo.py` - a standalone demonstration, run as `cd {wt} && PYTHONPATH={wt}/lib /venv/bin/python _seed/demo.py`:
   prints `PASS` and exits 0 when the property holds (clean tree), prints `FAIL` plus a short explanation and exits 1 on your
   changed tree. It must be deterministic and finish within a minute;
3. `meta.json` - {{"property": "{pid}", "summary": "...", "clause_broken": "...", "needs_to_manifest": "...",
   "files_changed": [...], "commands_run": [...]}}.

Verify all of this yourself before finishing: tests still `179 passed` WITH your change applied; `demo.py` exits 1 with the
change and exits 0 after `git stash` (or `git apply -R _seed/patch.diff`); leave the worktree WITH your change applied.

## Environment notes

* Interpreter: `/venv/bin/python` (3.12) with Twisted, mock, pytest. `whisper`, `ceres`, `mmh3`, `pyhash`, `google.protobuf`,
  `OpenSSL` are NOT installed and nothing can be installed (no network).
* Always put `{wt}/lib` first on `PYTHONPATH` (an editable install of another checkout exists in the venv) and check
  `carbon.__file__` points into your worktree.
* `carbon.conf.settings` is a dict subclass (`settings['X']` / `settings.X`). `carbon.storage` and `carbon.writer` read
  `settings['CONF_DIR'] + '/storage-schemas.conf'` at import time: point `CONF_DIR` at a temp dir containing such a file
  (e.g. `[all]\\npattern = .*\\nretentions = 60:1440\\n`) before importing them. Importing `carbon.service` needs
  `sys.modules['txamqp'] = None` first. `CACHE_SIZE_HARD_MAX` / `CACHE_SIZE_LOW_WATERMARK` only exist after you set them.
  `carbon.database` defines WhisperDatabase/CeresDatabase only if stub modules named `whisper`/`ceres` are in sys.modules
  before it is imported; the writer takes its backend from `carbon.state.database` (an in-memory subclass of
  `carbon.database.TimeSeriesDatabase` works).
* Protocols can be driven without sockets: `proto.makeConnection(twisted.internet.testing.StringTransport())` then
  `proto.dataReceived(b"...")`; time can be faked by replacing module-level names (`carbon.cache.time`, `carbon.util.time`/`sleep`,
  `carbon.writer.time`, `carbon.client.reactor` with a `twisted.internet.task.Clock`), threads can be stepped by hand.
* Do not start the real reactor, do not open network sockets, never execute real commands or write outside your worktree / a
  temp dir you create.

Finish with a short summary of the change, why it breaks the property, and what it needs in order to manifest.
"""


def main():
  root = sys.argv[1]
  avoid_file = sys.argv[2] if len(sys.argv) > 2 else None
  avoid = json.load(open(avoid_file)) if avoid_file else {}
  verif = os.path.dirname(os.path.dirname(os.path.abspath(__file__)))
  for l in open(os.path.join(verif, 'properties.jsonl')):
    d = json.loads(l)
    pid = d['id']
    wt = '%s/%s' % (root, pid)
    if not os.path.isdir(wt):
      continue
    prop = '**%s - %s**\n\n%s\n\nQuantified over: %s\n\nCode the property is anchored in (line numbers approximate):\n%s' % (
      pid, d['title'], d['statement'], d['quantifier']['text'],
      '\n'.join('* %s (%s)' % (m['name'], m['where']) for m in d['anchors']['mechanism']))
    av = ''
    if avoid.get(pid):
      av = ('\nAlready tried by others - do something DIFFERENT (another code site, another clause of the property, another kind of '
            'trigger):\n' + ''.join('* %s\n' % a for a in avoid[pid]) + '\n')
    os.makedirs(wt + '/_seed', exist_ok=True)
    open(wt + '/_seed/TASK.md', 'w').write(TEMPLATE.format(wt=wt, root=root, prop=prop, pid=pid, avoid=av))
  print('wrote tasks under', root)


if __name__ == '__main__':
  main()
