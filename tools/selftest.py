#!/venv/bin/python
"""Mutation self-test (development aid, not registered in MANIFEST.json).

  tools/selftest.py C01 [name-substring]     run the quick tier of C01 against each mutant
  tools/selftest.py --patch file.diff C01    run against a unified diff (seeded changes)

Mutants live in mutants/<ID>.json: [{"name", "file", "old", "new", "count"?}].  Each is
applied to a scratch copy of /repo/lib under a fresh mktemp dir (outside /repo and
/verif), the check is run with VERIF_CARBON_LIB pointing at the copy, and the copy is
removed.  Expected: exit 1 with a VIOLATION line.
"""
import json
import os
import shutil
import subprocess
import sys
import tempfile
import time

VERIF = os.path.dirname(os.path.dirname(os.path.abspath(__file__)))


def run_check(prop, lib, tier='quick'):
  tmp_ev = tempfile.mkdtemp(prefix='verif-ev-')
  env = dict(os.environ, VERIF_CARBON_LIB=lib, VERIF_EVIDENCE_DIR=tmp_ev,
             VERIF_REPLAY_DIR=os.path.join(tmp_ev, 'replays'))
  t0 = time.time()
  p = subprocess.run([os.path.join(VERIF, 'check'), prop, '--tier', tier], env=env,
                     stdout=subprocess.PIPE, stderr=subprocess.STDOUT, text=True)
  shutil.rmtree(tmp_ev, True)
  return p.returncode, p.stdout, time.time() - t0


def main():
  args = sys.argv[1:]
  patch = None
  tier = 'quick'
  if args and args[0] == '--patch':
    patch = args[1]
    args = args[2:]
  if args and args[0] == '--tier':
    tier = args[1]
    args = args[2:]
  props = [a for a in args if a[0] == 'C' and a[1:].isdigit()]
  filt = [a for a in args if a not in props]
  ok = True
  if patch:
    tmp = tempfile.mkdtemp(prefix='carbon-mut-')
    try:
      shutil.copytree('/repo/lib', os.path.join(tmp, 'lib'))
      subprocess.check_call(['patch', '-s', '-p1', '-d', tmp, '-i', os.path.abspath(patch)])
      for prop in props:
        rc, out, dt = run_check(prop, os.path.join(tmp, 'lib'), tier)
        sig = [l for l in out.splitlines() if 'signature=' in l]
        print('%-4s %-40s exit=%d %5.1fs %s' % (prop, os.path.basename(os.path.dirname(patch)) or patch, rc, dt,
                                               sig[0].strip() if sig else ''))
        if rc == 2:
          print(out[-1500:])
    finally:
      shutil.rmtree(tmp, True)
    return 0
  for prop in props:
    path = os.path.join(VERIF, 'mutants', '%s.json' % prop)
    muts = json.load(open(path))
    for m in muts:
      if filt and not any(f in m['name'] for f in filt):
        continue
      tmp = tempfile.mkdtemp(prefix='carbon-mut-')
      try:
        shutil.copytree('/repo/lib', os.path.join(tmp, 'lib'))
        f = os.path.join(tmp, m['file'])
        src = open(f).read()
        cnt = src.count(m['old'])
        if cnt != m.get('count', 1):
          print('%-4s %-45s STALE (old text occurs %d times)' % (prop, m['name'], cnt))
          ok = False
          continue
        open(f, 'w').write(src.replace(m['old'], m['new']))
        rc, out, dt = run_check(prop, os.path.join(tmp, 'lib'), tier)
        sig = [l for l in out.splitlines() if 'signature=' in l]
        verdict = 'caught' if rc == 1 else ('HARNESS-ERROR' if rc == 2 else 'MISSED')
        print('%-4s %-45s %-8s %5.1fs %s' % (prop, m['name'], verdict, dt, sig[0].strip() if sig else ''))
        if rc != 1:
          ok = False
          if rc == 2:
            print(out[-1500:])
      finally:
        shutil.rmtree(tmp, True)
  return 0 if ok else 1


if __name__ == '__main__':
  sys.exit(main())
