#!/venv/bin/python
"""Regenerate MANIFEST.json from the table below (keeps it valid at all times)."""
import json
import os
import sys

VERIF = os.path.dirname(os.path.dirname(os.path.abspath(__file__)))
sys.path.insert(0, VERIF)

CHECKS = {
  # id: (category, technique, engine, design_ref, text, note)
  'C01': ('exploration', 'property-based testing (Hypothesis) with an independent decoder oracle and metamorphic segmentation relation',
          'wire', 'DESIGN.md section 4 C01',
          'Generated datapoint streams x generated/whole/byte-wise/every-single-cut segmentations through the real line, UDP and pickle listener protocols; recorder output compared with an independent rational-arithmetic decoder. Exploration is the right level: the claim is over inputs x delivery schedules and has an exact executable oracle.',
          'Twisted LineOnlyReceiver/Int32StringReceiver and StringTransport are trusted; protobuf listener not importable here (not covered).'),
  'C11': ('exploration', 'property-based testing (Hypothesis): constructive malformed/well-formed interleavings with a differential oracle, byte-level mutation with a neighbour-preservation oracle',
          'wire', 'DESIGN.md section 4 C11',
          'Streams interleaving well-formed items with every malformed class named by the property (plus byte mutations, over-long items, length-prefix corruption) through the real listeners under generated segmentations; oracle: no exception leaves the handler, no disconnect unless an item exceeded the maximum length, delivered datapoints equal those of the stream with the malformed items removed. Three genuine defects found and fixed (see KNOWN_FINDINGS.txt).',
          'Items whose acceptance the documentation leaves open (bytes names, numeric strings, bools, negative timestamps) are not generated. Twisted framing trusted.'),
  'C02': ('exploration', 'schedule-generating property-based testing: deterministic line-granular scheduler + linearizability oracle; bounded-preemption enumeration in the thorough tier',
          'sched', 'DESIGN.md section 4 C02',
          'Generated store/drain/query histories for a receiving and a writer thread under generated (and, thorough, all <=2-preemption) line-level schedules and all six strategies; exact linearizability search against the sequential map-of-maps specification with a final full read, size invariant at every lock-free scheduling point.',
          'Generated schedules preempt between source lines; the prefilled single-preemption enumeration also preempts between bytecode instructions inside cache.py. Queries run on the receiving thread as in the daemon.'),
  'C10': ('exploration', 'schedule-generating property-based testing with a bounded sequential specification (linearizability incl. overflow signals) and per-scheduling-point invariants',
          'sched', 'DESIGN.md section 4 C10',
          'As C02 with MAX_CACHE_SIZE 1..6,20 x flow control; bound and no-empty-entry invariants at every scheduling point; refusals must signal exactly once and change nothing; duplicates accepted when full; derived hard limit produced by carbon\'s own postOptions and compared with the documented 100%/105%. One genuine defect found and fixed.',
          'ceil() of a fractional hard limit is the reachable bound (stated in DESIGN.md).'),
  'C17': ('exploration', 'schedule-generating property-based testing with strategy-specific sequential specifications (pass fairness, maximum, lag) checked by linearizability search',
          'sched', 'DESIGN.md section 4 C17',
          'Store/drain histories x schedules x six strategies x lag {0,5} x bounded/unbounded with a virtual clock, followed by draining to exhaustion; strategy contracts are part of the sequential spec. One genuine defect (bucketmax choose/pop race) found and fixed.',
          'Pass = documented "loop of the cache"; ties may be broken either way.'),
  'C03': ('fault_enumeration', 'fault-injecting, schedule-generating property-based testing against an in-memory backend; exhaustive <=2-fault placement in the thorough tier',
          'sched', 'DESIGN.md section 4 C03',
          'The real writeForever() runs as the writer thread against a receiving thread under generated schedules; every exists/create/write call of the in-memory plugin can be made to fail by a generated (thorough: exhaustively enumerated <=2-fault) plan; oracle over backend call log + counters + logged errors: each drained batch is written exactly once for its own metric after the file exists, or is accounted for.',
          'Backend failures are exceptions raised by the plugin call; exists() does not lie; line granularity.'),
  'C04': ('exploration', 'schedule- and stop-placement-generating property-based testing (exhaustive stop placement for fixed workloads in the thorough tier)',
          'sched', 'DESIGN.md section 4 C04',
          'Orderly stop (carbon\'s own shutdown trigger + running=False) placed at generated positions of the receiver program and generated interleavings with the writer loop, across strategies, lag and rate-limit settings; after writeForever() returns the cache must be empty and every value written once or accounted for. One genuine defect found and fixed.',
          'Thread-pool join modelled by running the writer thread to completion; virtual clock.'),
  'C20': ('exploration', 'model-based property-based testing on a virtual clock (window inequality over grant times + independent reference bucket), plus the scheduled writer harness',
          'sched', 'DESIGN.md section 4 C20',
          'Generated TokenBucket histories (drain, bursts, blocking drain, peek, clock steps 0..1e6, limit changes) and generated writer runs with both buckets active; oracle: every window between two grants/backend calls obeys rate*w + 2*burst per limit epoch, blocking sleeps bounded by deficit/rate of an independent continuously refilled bucket, no refusal while that bucket has tokens.',
          'Virtual clock replaces carbon.util.time/sleep; reference-bucket judgments are suspended after a limit decrease (see DESIGN.md 8.3).'),
  'C05': ('exploration', 'property-based testing over generated configurations with exhaustive enumeration of the 65536-position key space; validity-predicate oracle',
          'ring', 'DESIGN.md section 4 C05',
          'Generated destination sets x RF x DIVERSE_REPLICAS x router x hash type; every ring position is reached through a real metric name (exhaustively for some configurations, at all ring-entry boundaries for the rest) and the returned list is checked for count, membership, port, repeats, server diversity and determinism. One genuine defect found and fixed.',
          'mmh3_ch not covered (library absent).'),
  'C06': ('exploration', 'model-based property-based testing: differential comparison with an independent reference ring over generated membership histories, exhaustive in the key space',
          'ring', 'DESIGN.md section 4 C06',
          'Generated ordered node lists and leave/rejoin histories through the real router; after every operation the real preference list at every ring position (or every boundary position) is compared with an independent re-implementation of the published algorithm, with the list before the operation (minimal disruption) and at the end with a fresh router (history independence). The algorithm\'s own join-order dependence under collisions is a recorded known finding.',
          'Reference ring in verif/ref/ring.py is self-checked against the literal vectors of the repository tests.'),
  'C12': ('exploration', 'property-based testing against an evaluator written from the documented file formats (re-free pattern matcher), three listeners compared',
          'wire', 'DESIGN.md section 4 C12',
          'Generated whitelist/blacklist files (loaded from real files, regenerated mid-case), names, NaN/inf values, -1 and fractional timestamps, resolutions 0/1/10/60 on the line, UDP and pickle listeners with a virtual clock; delivered datapoints must equal the documented admission rules exactly.',
          'Unrestricted regexes are evaluated with re (list semantics only); timestamps >= 0 or exactly -1.'),
  'C13': ('exploration', 'exhaustive sweep of loaded (module, attribute) pairs + canary-based property-based testing over all global-resolving pickle routes + generated opcode programs and mutations',
          'wire', 'DESIGN.md section 4 C13',
          'Every module loaded in the daemon process x attributes through GLOBAL/STACK_GLOBAL (bare and nested in datapoint lists), all ten global-resolving routes for a canary set (recording callables, an unimported module, dotted names, allow-list neighbours), generated opcode programs and mutations; fed to the selected unpickler, the pickle listener and the cache query port; oracle: no canary call/import, no dangerous audit event, rejection of every off-list global, only plain data results.',
          'Audit-hook watch list is deliberately narrow; the two allow-listed pairs may load.'),
  'C14': ('exploration', 'exhaustive enumeration of short names over an attack alphabet + property-based testing with path-attack tokens + real file creation in a sandbox',
          'paths', 'DESIGN.md section 4 C14',
          'All names up to length 5/6 over a 10-character attack alphabet x both TAG_HASH_FILENAMES x the real WhisperDatabase and CeresDatabase classes, plus generated long attack names; normalised and real paths must stay inside the data directory, mapping deterministic and injective on the documented class; sampled names are really created and the sandbox is swept. One genuine defect (ceres absolute node path) found and fixed.',
          'whisper/ceres libraries replaced by stubs (file creation, documented ceres node mapping).'),
  'C18': ('exploration', 'property-based testing with exhaustive tag-order permutations; round-trip / idempotence / agreement oracles plus an independent splitter',
          'tags', 'DESIGN.md section 4 C18',
          'Generated names and tag sets built from syntax-bearing tokens, rendered in carbon syntax in all permutations and in OpenMetrics syntax; all renderings must normalise to one idempotent form that contains exactly the generated name and tags; rule-violating names must be rejected and stored/relayed unchanged by the real processors. One genuine defect (OpenMetrics dispatch on carbon syntax) found and fixed.',
          'Strings that are OpenMetrics syntax by shape are read as such; rejected OpenMetrics renderings are outside the comparison.'),
  'C16': ('exploration', 'property-based testing against evaluators written from the documented rule-file formats (re-free regex subset, independent aggregation-pattern matcher, reference ring)',
          'ring', 'DESIGN.md section 4 C16',
          'Generated relay-rules files (order, continue flags, default placement, destination forms, configured subsets) through RelayRulesRouter, and generated aggregation-rules files through both aggregated routers; returned destination sets must equal the evaluator / the union of the reference ring\'s replica sets of the derived aggregate names.',
          'Only valid rule files are generated; FastHashRing has no published reference (compared with the plain fast router).'),
  'C19': ('exploration', 'property-based testing against an evaluator written from the documented file formats; create arguments observed at the in-memory backend',
          'memdb', 'DESIGN.md section 4 C19',
          'Generated storage-schemas.conf / storage-aggregation.conf (section order, overlapping patterns, missing keys, all unit suffixes, multi-archive retentions, key capitalisation) loaded through the writer\'s reload functions; each new metric is stored and one writer pass produces the create() call whose arguments must equal the evaluator\'s first-match result.',
          'Backend archive validation not modelled; malformed retention strings not generated.'),
  'C15': ('exploration', 'round-trip property-based testing: real client factory + simulated reactor -> bytes -> real listener, exact rational tolerance check',
          'simreactor', 'DESIGN.md section 4 C15',
          'Generated datapoint lists (random 64-bit doubles, boundary magnitudes, huge ints, +-inf, fractional timestamps, non-ASCII names) queued in the real client factory, sent in MAX_DATAPOINTS_PER_MESSAGE batches by the pickle and line client protocols and fed under generated segmentation to the matching listener; count/order/name exact, pickle values bit-exact, line values within the stated tolerance (checked in exact rational arithmetic). One inherent half-ulp band recorded as a known finding.',
          'protobuf not importable here; client and listener joined at the transport boundary.'),
  'C07': ('exploration', 'model-based property-based testing over generated event histories on a simulated reactor; exhaustive short event sequences in the thorough tier',
          'simreactor', 'DESIGN.md section 4 C07',
          'Generated sequences of arrivals, self-metrics, connects, failures, losses, transport pauses/resumes, timer advances and stop against a relay wired by carbon\'s own setupPipeline on a simulated reactor (1-4 destinations, dynamic router on/off, pickle and line protocols, queue/batch/watermark proportions varied); bytes written to each transport are decoded and compared with the arrival order recorded at each queue: in-order, exactly-once, drops only at the hard limit and counted, bound after every step, conservation at quiescence, stop closes only after the queue was sent.',
          'Bytes handed to a transport count as transmitted; REPLICATION_FACTOR 1; no arrivals after stop.'),
  'C09': ('exploration', 'schedule-generating (cache side, incl. exhaustive single-preemption placement) and event-history-generating (relay side) property-based testing with a quiescence oracle',
          'sched+simreactor', 'DESIGN.md section 4 C09',
          'Cache side: receivers, a storing thread and a draining thread under generated and exhaustively placed preemptions with carbon\'s own flow-control wiring; relay side: the C07 machine plus structured pressure scenarios with flow control and receivers, quiescing either with everything reachable or with the environment keeping destinations down. At quiescence receivers must not be paused while every buffer is below its low watermark, connections made while paused must be paused, and no receiver may stay paused after the others were resumed. Three genuine defects found and fixed.',
          'Liveness is decided at quiescence on virtual clocks; line-level interleavings.'),
  'C08': ('exploration', 'model-based property-based testing on a virtual clock driving the real LoopingCalls; exact-rational reference functions and an independent pattern matcher',
          'aggregator', 'DESIGN.md section 4 C08',
          'Generated rule files from the documented pattern language x all 12 methods x MAX_AGGREGATION_INTERVALS/WRITE_BACK_FREQUENCY/FORWARD_ALL/name-cache settings, histories of receives (late, duplicate, very old, future, fractional timestamps) and clock advances; each emission must be the rule function over a suffix of the values received for the interval that covers everything since the last emission (the whole interval while inside the horizon), re-emission only on new data, bounded buffers, idle series released, pass-through exactly as documented, names attributed by an independent matcher.',
          'Expiry is judged away from its documented boundaries only; ambiguous <<field>> bindings are not sent.'),
}


# scope added while testing the checks against mutants and four rounds of independently seeded changes
# (DESIGN.md section 8.4); appended to the level text
EXTRA = {
  'C01': 'Also: python-2 style byte names, truncated/fractional timestamps, every single cut position for short streams.',
  'C02': 'Also: a quarter of the cases on a bounded cache with and without flow control, the derived limits placed on the settings object exactly as the daemon\'s start-up (CarbonCacheOptions.postOptions) places them; exhaustive single-preemption placement for duplicate-timestamp workloads; values start at the falsy 0.',
  'C03': 'Also: fractional timestamps inside one second, create-limit pressure histories (few metrics, many stores, dense preemptions).',
  'C04': 'Also: the before-shutdown trigger runs with Twisted\'s semantics (a raising trigger is logged, the stop goes on); a writer that never stops after the stop sequence raised is a violation, not an inconclusive run.',
  'C05': 'Also: colliding node hashes as a configuration class; destinations join, leave and rejoin before the look-ups (incl. one of several instances leaving a server that stays).',
  'C07': 'Also: the instrumentation timer as an event (the relay\'s own periodic metrics go through the same queues; discards == reported + running counter), writes after loseConnection(), datapoints stranded in the no-destination buffer. One further genuine defect (FakeClientFactory re-injection) found and fixed.',
  'C08': 'Also: replay/back-fill shaped histories (live point + backlog in either order, flush, more points for the oldest interval).',
  'C09': 'Also: generated fail-over histories, the instrumentation timer, and workloads whose threads start with receivers already paused (a new connection against the writer\'s resume, every single placement).',
  'C10': 'Also: hard-limit derivation for four carbon.conf layouts (options in [cache], or overridden in the selected instance section); the overflow signal must feed the reported counter: recordMetrics() run twice on the live cache, signals raised == reported + pending.',
  'C11': 'Also: a quarter of the cases with an admit-all whitelist and match-nothing blacklist loaded from files; thorough tier adds a coverage-guided atheris campaign per listener whose corpus is replayed through the same oracle.',
  'C12': 'Also: regex pool with groups, back-references and conditionals; list files that disappear; the same names re-sent after the lists changed; tagged and pseudo-tagged names.',
  'C13': 'Also: the option as resolved by carbon\'s own read_config() for eight program/instance-section layouts in which the operator has it off; thorough tier adds an atheris campaign.',
  'C14': 'Also: two threads asking for paths concurrently (determinism), generated pairs of near-identical untagged names over the words the encoding treats specially (injectivity beyond the enumerated lengths).',
  'C15': 'Also: a TCP-like transport that pauses the producer from inside write(); exceptions out of the client\'s send path are violations; 1.2 MB messages against a receiver whose frame limit was raised.',
  'C16': 'Also: a second generation of the rules files (with realistic past mtimes) reloaded while the routers live.',
  'C17': 'Also: all timestamps around the lag with a bounded cache, "cache full" announced by another component of the daemon, the derived limits placed as the start-up places them.',
  'C18': 'Also: explicit name tags, invalid OpenMetrics renderings, names of only "~" through both processors. One idempotence corner (name-tag-only series with an OpenMetrics-shaped value) is a recorded known finding.',
  'C19': 'Also: reloads racing with the writer pass at every placement; tagged series names (matched as received).',
  'C20': 'Also: windows spanning a limit change are judged against the more permissive of the two limits, tolerance relative to the window length, late wake-ups of blocking drains, shutdown-shaped histories.',
}

# rounds 5-7
EXTRA2 = {'C01': 'Back-pressure events (pause/resume) while the stream arrives, two interleaved connections plus one that ended mid-item, a slow client under a configured idle timeout (virtual clock), messages of 1200 datapoints.', 'C02': 'Metric names include the empty name and tagged / tag-like names; sub-second timestamps; prefilled single-preemption enumeration at line and at bytecode granularity.', 'C03': "Injected faults repeat the same text (a backend that stays down); carbon's default logging and tagging switched on; a tagged series and the empty metric name.", 'C04': "Blocking primitives the code under test may introduce (Event/Lock/RLock) are scheduler-aware; carbon's default LOG_UPDATES/LOG_CREATES/ENABLE_TAGS.", 'C06': 'Ring-edge configurations: nodes with a replica exactly on position 0xffff / 0, fnv1a_ch instance names shared by servers.', 'C07': 'Transports that push back from inside write(); USE_RATIO_RESET with instrumentation periods (quality resets told apart from stop closes). A further genuine defect (F17) found by the thorough tier and fixed.', 'C08': 'The virtual clock stops at every timer (a single Clock.advance would collapse the ticks); trickle-around-an-edge histories; several aggregates of the same inputs with the name cache on.', 'C09': 'Push-back transports in the relay histories. A fourth genuine defect (F16: space check vs cacheFull handlers on two threads) found by the thorough tier and fixed.', 'C10': 'Sub-second timestamps; prefilled enumeration at bytecode granularity inside cache.py.', 'C11': 'Items repeated later on the connection, a neighbouring connection, connection logging switched off/on, items exactly at / one byte over the maximum length and a frame between the default and a raised limit.', 'C12': "Rule texts whose ends look like a redundant '.*'; a list file removed and redeployed with the same rules; three generations.", 'C13': 'The canary set is also run in a child interpreter started with -O (assert statements removed).', 'C14': 'Nodes of 250-300 characters that differ only in the last character.', 'C16': 'Tagged names in the relay-rules cases; name cache on/off; several aggregates of the same inputs; a generation that renames an aggregate.', 'C17': "Prefilled single-preemption enumeration (one preemption of the writer's first drain reaches the choose/remove window).", 'C19': 'Generations deployed with preserved / older / equal mtimes; a reload that raises or exits is a violation.'}

# rounds 8-10
EXTRA3 = {'C02': 'Cold start: the write processor and the writer go through the real MetricCache() factory for the first time from two threads (every single preemption, conservation of datapoints).', 'C03': 'Fault kinds with errno EINTR / EAGAIN / ENOSPC.', 'C04': 'WriterService.startService() runs against the reactor double; the stop fires the triggers the service registered.', 'C05': 'Traffic before membership changes, instances returning on another port, destinations replaced by others, look-ups consumed alternately, run-time hash-type strings.', 'C06': 'Look-ups through the router as well as the ring; membership changes without a look-up in between; DESTINATIONS order through carbon.conf.', 'C07': 'RELAY_METHOD = rules as a dimension.', 'C09': 'USE_RATIO_RESET in the pressure and fail-over histories.', 'C10': 'Update of a cached timestamp through the write processor while the cache is at its limit (four spellings of a tagged series); names with a percent sign.', 'C11': 'Deeply nested pickle objects (F18, a genuine defect, fixed); 1100-2100 malformed items on one long-lived listener; over-long items that do not close the connection.', 'C12': 'Symlinked list files; half-anchored alternations.', 'C13': 'An unimported canary package with a sub-module; connections whose set-up raised half-way.', 'C14': 'A second instance with another data directory; every path exists() touches; a failed migration rename.', 'C15': "Back-pressure events on the receiving side while the client's stream arrives.", 'C16': 'Rules file removed; edits within the same second.', 'C17': 'Cache queries among the operations; passes that take minutes of virtual time.', 'C18': 'Trailing-separator names; one long-lived pair of processors fed 1203 rejected names over virtual minutes.', 'C19': 'A metric the writer turns to after both reloads completed must use the new files; failed create, reload, retry.', 'C20': 'One writer-side bucket operation at every line of a limit change; backlog and trickle of new metrics; failing backend calls.'}

PENDING_REASON = 'check not built yet in this session (design in DESIGN.md section 4); will be claimed once its check is quiet on the unchanged tree and catches its mutants'


def main():
  props = [json.loads(l)['id'] for l in open(os.path.join(VERIF, 'properties.jsonl'))]
  checks = []
  na = []
  for pid in props:
    if pid in CHECKS:
      cat, tech, engine, ref, text, note = CHECKS[pid]
      checks.append({
        'property_id': pid,
        'quick_cmd': './check %s --tier quick' % pid,
        'thorough_cmd': './check %s --tier thorough' % pid,
        'evidence_file': 'evidence/%s.json' % pid,
        'replay_cmd_template': './check %s --replay {path}' % pid,
        'engine': engine,
        'level_claimed': {'category': cat, 'text': text + (' ' + EXTRA[pid] if pid in EXTRA else '') + (' ' + EXTRA2[pid] if pid in EXTRA2 else '') + (' ' + EXTRA3[pid] if pid in EXTRA3 else ''), 'design_ref': ref},
        'level_note': note,
        'technique': tech,
      })
    else:
      na.append({'property_id': pid, 'reason': NA.get(pid, PENDING_REASON)})
  doc = {
    'version': 1,
    'setup_cmd': './setup.sh',
    'hooks': {
      'guard': 'GRAPHITE_PROJECT_CARBON_VERIF',
      'enable': 'no source hooks exist: every harness double is installed from outside (settings dict, module-level names, plugin registries); checks import carbon from /repo/lib directly',
      'baseline_off_cmd': 'cd /repo && /venv/bin/python -m pytest -ra -q -p no:cacheprovider --timeout=900 --continue-on-collection-errors',
      'source_commits': [],
      'add_only': True,
    },
    'engines': ENGINES,
    'checks': checks,
    'notes': 'Technique family: property-based testing and fuzzing only. See DESIGN.md. Known findings: KNOWN_FINDINGS.txt. Seeded changes used to test the checks: seeded/.',
    'not_applicable': na,
  }
  with open(os.path.join(VERIF, 'MANIFEST.json'), 'w') as f:
    json.dump(doc, f, indent=1)
  import jsonschema
  jsonschema.validate(doc, json.load(open(os.path.join(VERIF, 'schemas', 'MANIFEST.schema.json'))))
  print('MANIFEST.json: %d checks, %d not_applicable' % (len(checks), len(na)))


NA = {}
ENGINES = [
  {'name': 'aggregator', 'path': 'verif/props/c08.py', 'serves_properties': ['C08'],
   'kind_free_text': 'virtual clock substituted for carbon.aggregator.buffers.time and LoopingCall.clock; verif/ref/aggpat.py matcher'},
  {'name': 'simreactor', 'path': 'verif/simreactor.py', 'serves_properties': ['C07', 'C09', 'C15'],
   'kind_free_text': 'task.Clock-based reactor double with connectTCP; the harness plays connection made/failed/lost, transport pause/resume and time'},
  {'name': 'ring', 'path': 'verif/ref/ring.py', 'serves_properties': ['C05', 'C06', 'C16'],
   'kind_free_text': 'independent re-implementation of the published carbon_ch/fnv1a_ch ring + a real metric name for each of the 65536 ring positions'},
  {'name': 'sched', 'path': 'verif/sched.py', 'serves_properties': ['C02', 'C03', 'C04', 'C09', 'C10', 'C17', 'C20'],
   'kind_free_text': 'deterministic cooperative scheduler (sys.settrace line events, scheduler-aware lock, virtual clock) with schedules as data; linearizability search in verif/lin.py; cache driver in verif/cachesim.py'},
  {'name': 'wire', 'path': 'verif/wire.py', 'serves_properties': ['C01', 'C11', 'C12', 'C13', 'C15'],
   'kind_free_text': 'listener protocols on StringTransport, generated segmentation, independent decoders, mini pickle assembler (verif/pkl.py)'},
]

if __name__ == '__main__':
  main()
