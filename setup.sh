#!/bin/bash
# Offline setup: third-party packages the checks need, from the local wheelhouse
# into /verif/.deps (never touches /venv or the network).
set -e
here="$(cd "$(dirname "$0")" && pwd)"
cd "$here"
export PIP_NO_INDEX=1
W=/opt/veriftools/wheels
mkdir -p .deps
need=""
/venv/bin/python -c 'import hypothesis' 2>/dev/null || need="$need hypothesis"
PYTHONPATH="$here/.deps" /venv/bin/python -c 'import jsonschema' 2>/dev/null || need="$need jsonschema"
PYTHONPATH="$here/.deps" /venv/bin/python -c 'import atheris' 2>/dev/null || need="$need atheris"
for p in $need; do
  /venv/bin/pip install --quiet --no-index --find-links "$W" --target "$here/.deps" "$p" \
    || echo "setup: could not install $p (checks degrade gracefully where possible)"
done
PYTHONPATH="$here:$here/.deps" /venv/bin/python -c 'import hypothesis, jsonschema; print("setup ok: hypothesis", hypothesis.__version__)'
